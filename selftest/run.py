#!/usr/bin/env python3
"""Self-validation: apply small seeded faults to a scratch copy of /repo and confirm the quick checks fire.

usage: selftest/run.py [--only ID,ID] [--prop C05] [--no-tests] [--tier quick]
Each mutant: {id, property, file, old, new, note}.  A mutant the pinned suite kills is reported (not "realistic").
The scratch copy lives under /dev/shm and is removed afterwards.
"""
import concurrent.futures as cf
import json
import os
import shutil
import subprocess
import sys
import tempfile

ROOT = os.path.dirname(os.path.dirname(os.path.abspath(__file__)))
REPO = "/repo"


def run_one(m, run_tests, tier):
    d = tempfile.mkdtemp(prefix="vf_mut_", dir="/dev/shm")
    try:
        dst = os.path.join(d, "repo")
        shutil.copytree(REPO, dst, ignore=shutil.ignore_patterns(".git", "__pycache__", "*.egg-info", "docs", ".pytest_cache"))
        p = os.path.join(dst, m["file"])
        s = open(p).read()
        n = s.count(m["old"])
        if n != m.get("count", 1):
            return m["id"], {"error": f"pattern occurs {n} times"}
        s = s.replace(m["old"], m["new"])
        for extra in m.get("also", []):        # further replacements in the same file (a mutant made of two edits)
            if s.count(extra["old"]) != 1:
                return m["id"], {"error": f"second pattern occurs {s.count(extra['old'])} times"}
            s = s.replace(extra["old"], extra["new"])
        open(p, "w").write(s)
        res = {}
        if run_tests:
            t = subprocess.run(["/venv/bin/python", "-m", "pytest", "-q", "-x", "-p", "no:cacheprovider", "--timeout=300"], cwd=dst,
                               capture_output=True, text=True)
            res["tests"] = "pass" if t.returncode == 0 else "FAIL(" + t.stdout.strip().splitlines()[-1][:60] + ")"
        env = dict(os.environ, VF_REPO=dst, VF_EVIDENCE_DIR=os.path.join(d, "evidence"))
        props = m["property"] if isinstance(m["property"], list) else [m["property"]]
        for prop in props:
            c = subprocess.run([os.path.join(ROOT, "check"), prop, tier], cwd=ROOT, capture_output=True, text=True, env=env)
            keys = [l.split("key=")[1].split(" ::")[0] for l in c.stdout.splitlines() if l.strip().startswith("violated:")]
            inc = [l for l in c.stdout.splitlines() if l.startswith("INCONCLUSIVE")]
            res[prop] = {"rc": c.returncode, "keys": keys[:4], "inconclusive": inc[:1]}
        return m["id"], res
    finally:
        shutil.rmtree(d, ignore_errors=True)


def main():
    args = sys.argv[1:]
    only = None
    prop = None
    run_tests = True
    tier = "quick"
    i = 0
    while i < len(args):
        if args[i] == "--only":
            only = set(args[i + 1].split(","))
            i += 1
        elif args[i] == "--prop":
            prop = args[i + 1]
            i += 1
        elif args[i] == "--no-tests":
            run_tests = False
        elif args[i] == "--tier":
            tier = args[i + 1]
            i += 1
        i += 1
    muts = json.load(open(os.path.join(ROOT, "selftest", "mutants.json")))
    muts = [m for m in muts if (only is None or m["id"] in only) and (prop is None or prop in (m["property"] if isinstance(m["property"], list) else [m["property"]]))]
    # evidence / replays of the real tree must not be overwritten by self-test runs: work on a copy of ROOT? the checks write
    # evidence/<id>.json in ROOT; save and restore them.
    ev = os.path.join(ROOT, "evidence")
    saved = tempfile.mkdtemp(prefix="vf_ev_", dir="/dev/shm")
    if os.path.isdir(ev):
        shutil.copytree(ev, os.path.join(saved, "evidence"))
    missed = 0
    try:
        with cf.ThreadPoolExecutor(max_workers=3) as ex:
            for mid, res in ex.map(lambda m: run_one(m, run_tests, tier), muts):
                rcs = [v.get("rc") for k, v in res.items() if isinstance(v, dict) and "rc" in v]
                caught = bool(rcs) and all(rc == 1 for rc in rcs)   # a mutant that could not be applied is not "caught"
                if not caught:
                    missed += 1
                print(("CAUGHT " if caught else "MISSED ") + mid, json.dumps(res))
                sys.stdout.flush()
    finally:
        if os.path.isdir(os.path.join(saved, "evidence")):
            shutil.rmtree(ev, ignore_errors=True)
            shutil.copytree(os.path.join(saved, "evidence"), ev)
        shutil.rmtree(saved, ignore_errors=True)
    print(f"{len(muts)} mutants, {missed} missed")
    return 1 if missed else 0


if __name__ == "__main__":
    sys.exit(main())
