#!/usr/bin/env python3
"""Print the as-built table for DESIGN.md from what is on disk.

usage: tools/asbuilt.py [THOROUGH_LOG] [SELFTEST_LOG]
  quick columns   : evidence/<id>.json (must have been written by a quick run)
  thorough column : lines "CNN thorough seed=..: evaluations=N ... wall=Ts" of THOROUGH_LOG (a sweep's output)
  mutants column  : CAUGHT / MISSED lines of SELFTEST_LOG (selftest/run.py output), per property
  seeds column    : seeded/*/meta.json (live seeds caught by the check of their own property / live seeds)
"""
import json
import os
import re
import sys

ROOT = os.path.dirname(os.path.dirname(os.path.abspath(__file__)))


def main():
    tlog = sys.argv[1] if len(sys.argv) > 1 else None
    slog = sys.argv[2] if len(sys.argv) > 2 else None
    thorough = {}
    if tlog and os.path.exists(tlog):
        for l in open(tlog, errors="replace"):
            m = re.search(r"(C\d\d) thorough seed=(\d+): evaluations=(\d+) .*wall=([0-9.]+)s", l)
            if m:
                thorough[m.group(1)] = (int(m.group(3)), float(m.group(4)))
    muts = json.load(open(os.path.join(ROOT, "selftest", "mutants.json")))
    verdict = {}
    if slog and os.path.exists(slog):
        for l in open(slog, errors="replace"):
            m = re.match(r"(CAUGHT|MISSED) (\S+)", l)
            if m:
                verdict[m.group(2)] = m.group(1)
    per_mut = {}
    for x in muts:
        props = x["property"] if isinstance(x["property"], list) else [x["property"]]
        for p in props:
            c = per_mut.setdefault(p, [0, 0])
            c[1] += 1
            if verdict.get(x["id"]) == "CAUGHT":
                c[0] += 1
    seeds = {}
    sd = os.path.join(ROOT, "seeded")
    for d in sorted(os.listdir(sd)):
        mp = os.path.join(sd, d, "meta.json")
        if not os.path.exists(mp):
            continue
        m = json.load(open(mp))
        if m.get("superseded"):
            continue
        c = seeds.setdefault(m["property"], [0, 0, 0])
        c[2] += 1
        if m["property"] in (m.get("caught_by") or []):
            c[0] += 1
        if m.get("caught_by"):
            c[1] += 1
    man = {c["property_id"]: c for c in json.load(open(os.path.join(ROOT, "MANIFEST.json")))["checks"]}
    print("| prop | level | quick: cases (distinct non-trivial), slowest shard | thorough: cases, wall | mutants caught | seeded changes caught by own check / any check / live |")
    print("|---|---|---|---|---|---|")
    for p in sorted(man):
        ev = json.load(open(os.path.join(ROOT, "evidence", p + ".json")))
        cov = ev["coverage"]
        q = f"{cov['evaluations']:,} ({cov.get('distinct_nontrivial', 0):,}), {max(cov.get('shard_wall_s') or [0]):.0f} s" if ev.get("tier") == "quick" else "(evidence is not from a quick run)"
        t = thorough.get(p)
        ts = f"{t[0]:,}, {t[1]:.0f} s" if t else "n/a"
        mm = per_mut.get(p, [0, 0])
        ss = seeds.get(p, [0, 0, 0])
        print(f"| {p} | {man[p].get('level', ev.get('level'))} | {q} | {ts} | {mm[0]}/{mm[1]} | {ss[0]} / {ss[1]} / {ss[2]} |")


if __name__ == "__main__":
    main()
