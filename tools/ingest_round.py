#!/usr/bin/env python3
"""Copy a round of sub-agent output (/tmp/sN_CNN/SEED/{a,b}) into seeded/<P><letter> with a fresh meta.json.

usage: tools/ingest_round.py ROUND_NO PREFIX LETTER_A LETTER_B REPO_HEAD     e.g.  6 /tmp/s6_ k l 92ca44e
Findings on the unchanged tree (SEED/head_findings.md, head_demo.py) go to seeded/head_findings/<P>/ with a round suffix.
"""
import json
import os
import shutil
import sys

ROOT = os.path.dirname(os.path.dirname(os.path.abspath(__file__)))
ORD = {1: "first", 2: "second", 3: "third", 4: "fourth", 5: "fifth", 6: "sixth", 7: "seventh"}


def main():
    rnd, prefix, la, lb, head = int(sys.argv[1]), sys.argv[2], sys.argv[3], sys.argv[4], sys.argv[5]
    for n in range(1, 21):
        p = f"C{n:02d}"
        src = f"{prefix}{p}/SEED"
        for v, letter in (("a", la), ("b", lb)):
            s = os.path.join(src, v)
            if not os.path.exists(os.path.join(s, "patch.diff")):
                print("missing", s)
                continue
            d = os.path.join(ROOT, "seeded", p + letter)
            os.makedirs(d, exist_ok=True)
            for f in os.listdir(s):
                if os.path.isfile(os.path.join(s, f)) and os.path.getsize(os.path.join(s, f)) < 400000:
                    shutil.copy(os.path.join(s, f), os.path.join(d, f))
            notes = open(os.path.join(s, "notes.md"), errors="replace").read() if os.path.exists(os.path.join(s, "notes.md")) else ""
            body = " ".join(l.strip() for l in notes.splitlines() if l.strip() and not l.startswith("#"))
            meta = {"id": p + letter, "property": p, "round": rnd,
                    "source": f"independent sub-agent ({ORD[rnd]} round) given only the property text and a scratch worktree of /repo at {head}",
                    "summary": body[:260], "needs_to_manifest": "see notes.md (written by the sub-agent)"}
            json.dump(meta, open(os.path.join(d, "meta.json"), "w"), indent=1)
        hd = os.path.join(ROOT, "seeded", "head_findings", p)
        for f in ("head_findings.md", "head_demo.py"):
            if os.path.exists(os.path.join(src, f)):
                os.makedirs(hd, exist_ok=True)
                b, e = os.path.splitext(f)
                shutil.copy(os.path.join(src, f), os.path.join(hd, f"{b}_round{rnd}{e}"))


if __name__ == "__main__":
    main()
