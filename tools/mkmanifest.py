#!/usr/bin/env python3
"""Regenerate MANIFEST.json from the table below + which vf/checks/cNN.py exist."""
import json, os
ROOT = os.path.dirname(os.path.dirname(os.path.abspath(__file__)))
T = {
 "C01": ("exploration", "round-trip oracle + independent wire parser over generated well-formed messages", "§4 C01",
         "Real Codec.encode/decode run on 10^5-10^6 generated messages (every group of the table enumerated, random nesting, framing look-alike values, 4 numbering modes); each result compared structurally with the input and the wire form re-parsed by an independent framer. Holds on what was generated, not a proof.",
         "generator defines 'well-formed w.r.t. the group table'; values restricted to printable ASCII without SOH; vf.ref.fixwire trusted"),
 "C03": ("exploration", "sent-frame-list oracle on a live reader under exhaustive 1-/2-cut and random partitions", "§4 C03",
         "A real logged-on socket_read_task is fed valid streams through a chunker in ALL 1-cut and 2-cut partitions of short streams, 1-byte reads, random multi-cut partitions, >4096-byte streams and marker-free garbage; deliveries, inbound journal rows, state and tap are compared with the frames that were sent.",
         "frames come from the independent framer; garbage containing the marker is C10's"),
 "C10": ("exploration", "wrapped decoder + independent framer + live-reader progress monitor over exhaustive single-byte corruptions", "§4 C10",
         "Codec.decode(silent=True) is run on every single-byte substitution/deletion/insertion of a corpus of valid frames, grammar-aware malformed frames and random bytes (no exception, consumed in range, accepted frames re-parsed by the independent framer, read-loop style repeated decode terminates) and a live reader must react to valid traffic after each malformed input.",
         "'never blocks' is restated as bounded progress: reaction to 16 valid frames; frames claiming > 1500 body bytes are outside the live part"),
 "C13": ("exploration", "step-by-step reference-model monitor of the Journaler public API", "§4 C13",
         "Random interleaved operation sequences over several sessions (mirror CompIDs, SQL-special characters, sparse/descending/huge numbers, arbitrary bytes, odd bounds) on in-memory and file-backed journals; each return value / exception and, every 5 steps, the whole content on both load paths are compared with a dict model.",
         "numbers < 2^63; sqlite3 trusted"),
 "C16": ("exploration", "exhaustive enumeration of the transition function judged by laws from the statement", "§4 C16",
         "The entire finite domain (about 120k calls incl. raw-string arguments and unsupported kinds) is enumerated on every run and judged by six laws derived from the statement plus an independent FIX 4.4 matrix table; exhaustive over the stated domain.",
         "vf/ref/ordref.py matrix cells are my reading of FIX 4.4 Vol.4 App.D; cells contradicted by pinned tests are left unspecified"),
 "C18": ("exploration", "step-by-step ordered-map reference-model monitor of FIXContainer / FIXMessage", "§4 C18",
         "Random operation sequences (all public container methods, three tag spellings, nested containers 3 deep, equality with equal / single-difference containers and dicts, pickle) compared operation by operation and structurally with an ordered-list model.",
         "unspecified zones listed in evidence assumptions are never judged"),
 "C19": ("exploration", "three-zone lexical oracle (FIX 4.4 datatypes) against SchemaField.validate_value", "§4 C19",
         "For a real field of every datatype in both dictionaries: all short strings over a hostile alphabet, boundary values, single-character edits of valid date/time templates, random members; every enumerated field with all enumerators and near-misses; verdicts compared with accept / reject / unspecified zones.",
         "vf/ref/lexical.py is my reading of FIX 4.4 Vol.1 data types; doubtful lexemes are in the unspecified zone"),
 "C04": ("exploration", "per-frame step monitor (rules R1-R4 on delivery, expected-number movement, ResendRequests) on a live connection fed by a scripted adversarial peer", "§4 C04",
         "A real logged-on connection (both roles; starts ACTIVE, RESENDREQ_AWAITING after a real gap, after a too-high Logon) is fed one frame at a time; ALL histories of length 3 (quick) / 4 (thorough) over a 24-symbol alphabet relative to the connection's own expected number, plus random histories of length 6-14 over 40 symbols; after every frame: delivery only at the expected number and once, expected number never moves backwards or past a gap, exactly one ResendRequest(BeginSeqNo=expected) per gap, delivered numbers strictly increase.",
         "a history is judged up to its first violation; Reset-mode SequenceReset is outside rule R3; replies to inbound ResendRequests are judged by C06"),
 "C05": ("exploration", "invariant at quiescent points: tapped frames vs journal rows vs stored and live counters after every step of random send histories", "§4 C05",
         "Random histories of 10-40 steps on a real connection (both roles, counters starting at 1, 2, 10^6 or loaded from a pre-populated journal): every kind of send in every state the API reaches, interleaved with inbound frames that cause sends; after each step every new tapped frame carries the next number, the journal returns exactly the tapped bytes under that number, stored next-out == last+1 == live counter, and a refused send changes nothing.",
         "transport faults (C07/C09) are excluded from these histories; replies to inbound ResendRequests are judged by C06"),
 "C06": ("exploration", "independent chain walk over the tapped reply to a ResendRequest + side-effect comparison (counters, journal rows, state)", "§4 C06",
         "Outbound journals built through the real send path: every sequence of length <= 3 (quick) / <= 4 (thorough) over 8 slot kinds (incl. application types that share a first character with session types) plus random journals, optionally after an earlier serviced request, x (BeginSeqNo, EndSeqNo) grids incl. invalid ranges x {ACTIVE, RESENDREQ_AWAITING}; the reply must be a contiguous chain from BeginSeqNo to min(End,last): retransmissions only of journaled accepted application messages with PossDupFlag/OrigSendingTime and identical body, everything else gap-filled, nothing beyond the range, no side effects outside it.",
         "for invalid requests only the side-effect clause is judged; OrigSendingTime of a retransmitted earlier copy may be either the copy's 122 or its 52"),
 "C08": ("fault_enumeration", "fault enumeration: the writer dies at EVERY SQL-statement / commit boundary of generated operation sequences (in-process death for all, forked children dying by os._exit for a subset, both must agree); the re-opened file is compared with a dict model", "§4 C08",
         "Generated operation sequences on a file-backed Journaler (create/load of up to 3 sessions incl. mirror CompIDs, persist in/out fresh/duplicate/out-of-order/binary, set_seq_num in all argument modes, reset): a dry run numbers every boundary (before/after each execute and commit, constructor included); the writer is killed at every one of them and a fresh Journaler on the file must report exactly the model state before or after the operation in flight (counters on both load paths, all rows of both directions byte for byte); normal endings (del, interpreter exit in a real subprocess, killed after the last operation) must give the final state.",
         "process death, not power loss (sqlite3 and the OS trusted, as the property says); boundaries are Python-level statement boundaries, a death inside one sqlite3 C call is sqlite's own atomicity"),
 "C11": ("exploration", "enumerated cell product on fresh real connections judged from callbacks, transport tap, state and live+stored counters", "§4 C11",
         "One fresh AsyncFIXClient / AsyncFIXDummyServer per cell with the real reader (and heartbeat) task: (A) every non-Logon class fed before the Logon exchange completes in each pre-session state and every non-Logon/Logout send in each state outside a session; (B) every integrity defect x message class x {before Logon, ACTIVE, RESENDREQ_AWAITING} x role x header order, alone and with valid frames behind it in the same read; (C) every disconnect cause incl. double causes followed by valid frames and sends. No delivery, no counter movement, drop (+Logout with reason where the counterparty is identifiable), silence afterwards, on_disconnect exactly once.",
         "too-low frames with PossDupFlag=Y or of type SequenceReset, and non-numeric MsgSeqNum, are outside the judged zone"),
 "C12": ("exploration", "timed-tap monitor over virtual-time scenarios: real heartbeat and reader tasks against a scripted peer; verdicts from tapped frames with virtual timestamps, state and callbacks", "§4 C12",
         "Grid of heartbeat interval x role x tick phase x peer pattern (silent, burst then silent, periodic traffic, Heartbeats every h, TestRequests answered after a delay, wrong / missing / duplicate answers, application TestRequests, inbound TestRequests with hostile ids) plus random mixtures on the virtual-time loop: TestRequest within [h-1,h+1] of silence, disconnect by 3h+2, live peers survive 12 intervals, identical TestReqID echoed first, never two TestRequests outstanding, wrong id ends with a Logout.",
         "'never' is a 12-interval horizon; answers later than 2h-2.1 s and traffic slower than max(h/2, h-1.1) without answers are unspecified"),
 "C14": ("exploration", "controlled scheduler (gates on every drain() and awaited application hook; task starts, inbound deliveries and clock ticks as scheduler options) with exhaustive DFS over the first decisions + random schedules; oracle over transport tap, senders' results, journal and stored counter", "§4 C14",
         "Eleven scenarios on a fresh real connection (concurrent application senders, application and heartbeat-task TestRequests, reader servicing a ResendRequest / a Logon / a TestRequest / a gap / a wrong TestReqID) explored by stateless re-execution over all choice sequences of the first 7 (quick) / 11 (thorough) decisions, greedy afterwards, plus random schedules: new frames strictly increasing and gap-free in wire order, numbers reused only by PossDup / gap-fill retransmissions, no DuplicateSeqNoError, every new frame journaled under its number, stored next-out = highest + 1, all tasks finish.",
         "drain waiters are released FIFO; a bare asyncio.sleep(0) in the library is gated too; other un-gated suspension points (none today) would not be explored"),
 "C07": ("fault_enumeration", "fault enumeration on two real endpoints over a frame-granular link: breaks at every frame boundary (exhaustive action sequences to a depth bound) and random walks with fault kinds per end; end-to-end oracle at quiescence (unique ids: received == accepted, in order, once; both ACTIVE; counters agree)", "§4 C07",
         "AsyncFIXClient + AsyncFIXDummyServer with real reader/heartbeat tasks and journals that outlive every connection attempt: ALL action sequences up to depth 8/10 over {send I, send A, deliver to I, deliver to A, break, reconnect} (<= 2 sends per side, <= 2 breaks, pruned by global state hash) and random walks of 30-110 actions with up to 5 breaks (EOF / reset / broken pipe / silent / TimeoutError / OSError on read, failing drain, time passing); then forced reconnect, Logon, delivery of everything in flight, and the comparison.",
         "exhaustive to 2 breaks, random to 5; quiescence bounded (12 rounds); the acceptor learns of a break at the latest when the initiator reconnects"),
 "C09": ("fault_enumeration", "fault enumeration: graceful stop at every quiescent point and kill at every enumerated SQL / commit / transport boundary of sending and receiving, on two real endpoints with file journals; oracles: counters of a new connection object on the journal vs the live object, end-to-end id comparison across incarnations, per-identity MsgSeqNum reuse from the transport taps, ResendRequests after clean restarts", "§4 C09",
         "Generated histories (traffic both ways, partial delivery, link breaks with frames in flight, gap fills, SequenceReset-Reset, reset_seq_num, time) are run once to enumerate quiescent points and kill points and then re-run per point: a second Journaler + new connection object must report the live counters at every quiescent point; either side is stopped (with/without Logout) or killed (in-process death: Kill raised at the boundary, nothing more executes, SQLite connection and cursor closed without commit, socket closed), a new object takes over on the same journal file, reconnects and logs on; then no loss / duplication (operation in flight stays open), no outbound number reused for a different message, no ResendRequest after a clean restart.",
         "process death not power loss; in-process death is validated against real os._exit children in C08; renumbering by agreement (reset_seq_num, application SequenceReset) is not a kill step"),
 "C15": ("exploration", "generated instances and single faults from an independent dictionary reader, judged by the library's own verdict (accept / FIXMessageError / anything else), plus verdict comparison under permuted declaration order", "§4 C15",
         "For every message type of both XML dictionaries: valid instances at three member densities (groups 1-3 items, nested 4 deep, MUST-ACCEPT values, with/without header) must validate; eleven classes of single fault at positions spread over all nesting depths must raise FIXMessageError and nothing else; a fixed battery of verdicts must be identical after permuting the order in which components and messages are declared.",
         "the independent reader only generates; members required inside optional components are always present; bad values are blatant (near-misses are C19's)"),
 "C17": ("exploration", "exchange simulator (FIX 4.4 matrices) + exhaustive interleaving exploration of requests / exchange events / report processing with step monitors and a quiescence oracle on the real order object", "§4 C17",
         "The real FIXNewOrderSingle is driven through ALL interleavings to depth 9 / 13 (visited-state pruning) and random walks of 40 steps over {new, cancel, replace price / qty up / qty down, process report} x {pending-new, ack, reject, request pending / accepted / rejected, partial and full fills, expire, suspend, resume, unsolicited cancel}; after every step status is an enum member, permitted requests build, use a fresh ClOrdID and the live OrigClOrdID, never two outstanding; at quiescence status / cum / leaves / price / qty equal the exchange's and finished orders refuse requests.",
         "the exchange model is my reading of FIX 4.4 Vol.4 App.D restricted to what the pinned scenario tests agree on; DONE_FOR_DAY / STOPPED / CALCULATED not generated"),
 "C20": ("exploration", "contract-style monitors on every message FIXTester fabricates over reachable order states and accepted argument combinations (dictionary validity via the library schema and an independent reader, quantity arithmetic, ExecID / OrderID bookkeeping, processing by the order) + differential run of clean scripts against the simulated and a real acceptor", "§4 C20",
         "Real orders are walked through reachable states; in every state 17 ExecTypes x 14 OrdStatus values x quantity triples x ClOrdID choices go through a schema-less FIXTester; what its own assertions accept must validate against FIX44.xml, keep CumQty + LeavesQty <= OrderQty and LeavesQty = 0 when finished, use a fresh ExecID and one OrderID per order, and be processed by the order without error; cancel rejects for real requests and all session message builders likewise; scripts (logon, traffic both ways, TestRequests, Logout) give the initiator identical frames / states / callbacks / counters against the simulated and a real acceptor.",
         "a combination refused by the helper's own AssertionError is not judged; part 2 compares the initiator's view of clean scripts only"),
 "C02": ("exploration", "independent strict framer as oracle on encoder output and on every tapped transport write", "§4 C02",
         "Every byte string the encoder returns for generated messages (incl. non-ASCII) and every write() of a real connection during random session histories is parsed by an independent strict FIX framer (BodyLength/CheckSum recomputed on bytes).",
         "vf.ref.fixwire is the definition of well-formed; empty values tolerated"),
}
def main():
    checks = []
    na = []
    props = [json.loads(l) for l in open(os.path.join(ROOT, "properties.jsonl"))]
    for p in props:
        pid = p["id"]
        if pid in T and os.path.exists(os.path.join(ROOT, "vf", "checks", pid.lower() + ".py")):
            lvl, tech, ref, text, note = T[pid]
            checks.append({
                "property_id": pid, "quick_cmd": f"./check {pid} quick", "thorough_cmd": f"./check {pid} thorough",
                "evidence_file": f"evidence/{pid}.json", "replay_cmd_template": f"./check {pid} --replay {{path}}",
                "engine": "vf", "level_claimed": {"category": lvl, "text": text, "design_ref": ref},
                "level_note": note, "technique": "runtime monitoring: " + tech})
        else:
            na.append({"property_id": pid, "reason": "check not built yet in this round (planned in DESIGN.md §4); nothing is claimed for it"})
    m = {
        "version": 1,
        "setup_cmd": "/venv/bin/python -B -m vf.core.selftest",
        "hooks": {"guard": "ASYNCFIX_VERIF", "enable": "none needed: all observation points are reachable from outside (transports, callbacks, module attributes time/datetime/sqlite3, sys.monitoring); the guard name is reserved and unused",
                  "baseline_off_cmd": "cd /repo && /venv/bin/python -m pytest -ra -q -p no:cacheprovider --timeout=900 --continue-on-collection-errors",
                  "source_commits": [], "add_only": True},
        "engines": [{"name": "vf", "path": "vf/", "serves_properties": [c["property_id"] for c in checks],
                     "kind_free_text": "pure-Python runtime monitoring harness: real asyncfix code from /repo's working tree run under generated / enumerated / fault-injected workloads on a virtual-time event loop with in-memory transports; monitors compare observations at the library's boundaries with small independent references"}],
        "checks": checks,
        "not_applicable": na,
        "notes": "All checks import asyncfix from /repo's working tree in fresh processes (VF_REPO overrides, used only for self-tests on scratch copies). Exit 0 held / 1 VIOLATION / 2 INCONCLUSIVE. Known findings: known_findings.json.",
    }
    if not na:
        m["not_applicable"] = []
    json.dump(m, open(os.path.join(ROOT, "MANIFEST.json"), "w"), indent=1)
    print("checks:", [c["property_id"] for c in checks], "n/a:", len(na))
main()
