#!/usr/bin/env python3
"""Regenerate MANIFEST.json from the table below + which vf/checks/cNN.py exist."""
import json, os
ROOT = os.path.dirname(os.path.dirname(os.path.abspath(__file__)))
T = {
 "C01": ("exploration", "round-trip oracle + independent wire parser over generated well-formed messages", "§4 C01",
         "Real Codec.encode/decode run on 10^5-10^6 generated messages (every group of the table enumerated, random nesting, framing look-alike values, 4 numbering modes); each result compared structurally with the input and the wire form re-parsed by an independent framer. Holds on what was generated, not a proof.",
         "generator defines 'well-formed w.r.t. the group table'; values restricted to printable ASCII without SOH; vf.ref.fixwire trusted"),
 "C02": ("exploration", "independent strict framer as oracle on encoder output and on every tapped transport write", "§4 C02",
         "Every byte string the encoder returns for generated messages (incl. non-ASCII) and every write() of a real connection during random session histories is parsed by an independent strict FIX framer (BodyLength/CheckSum recomputed on bytes).",
         "vf.ref.fixwire is the definition of well-formed; empty values tolerated"),
}
def main():
    checks = []
    na = []
    props = [json.loads(l) for l in open(os.path.join(ROOT, "properties.jsonl"))]
    for p in props:
        pid = p["id"]
        if pid in T and os.path.exists(os.path.join(ROOT, "vf", "checks", pid.lower() + ".py")):
            lvl, tech, ref, text, note = T[pid]
            checks.append({
                "property_id": pid, "quick_cmd": f"./check {pid} quick", "thorough_cmd": f"./check {pid} thorough",
                "evidence_file": f"evidence/{pid}.json", "replay_cmd_template": f"./check {pid} --replay {{path}}",
                "engine": "vf", "level_claimed": {"category": lvl, "text": text, "design_ref": ref},
                "level_note": note, "technique": "runtime monitoring: " + tech})
        else:
            na.append({"property_id": pid, "reason": "check not built yet in this round (planned in DESIGN.md §4); nothing is claimed for it"})
    m = {
        "version": 1,
        "setup_cmd": "/venv/bin/python -B -m vf.core.selftest",
        "hooks": {"guard": "ASYNCFIX_VERIF", "enable": "none needed: all observation points are reachable from outside (transports, callbacks, module attributes time/datetime/sqlite3, sys.monitoring); the guard name is reserved and unused",
                  "baseline_off_cmd": "cd /repo && /venv/bin/python -m pytest -ra -q -p no:cacheprovider --timeout=900 --continue-on-collection-errors",
                  "source_commits": [], "add_only": True},
        "engines": [{"name": "vf", "path": "vf/", "serves_properties": [c["property_id"] for c in checks],
                     "kind_free_text": "pure-Python runtime monitoring harness: real asyncfix code from /repo's working tree run under generated / enumerated / fault-injected workloads on a virtual-time event loop with in-memory transports; monitors compare observations at the library's boundaries with small independent references"}],
        "checks": checks,
        "not_applicable": na,
        "notes": "All checks import asyncfix from /repo's working tree in fresh processes (VF_REPO overrides, used only for self-tests on scratch copies). Exit 0 held / 1 VIOLATION / 2 INCONCLUSIVE. Known findings: known_findings.json.",
    }
    if not na:
        m["not_applicable"] = []
    json.dump(m, open(os.path.join(ROOT, "MANIFEST.json"), "w"), indent=1)
    print("checks:", [c["property_id"] for c in checks], "n/a:", len(na))
main()
