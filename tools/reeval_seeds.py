#!/usr/bin/env python3
"""Re-evaluate seeded changes against the current checks and write the outcome into each seeded/<id>/meta.json.

usage: tools/reeval_seeds.py [--round 2] [--only C07c,C10d] [--extra C04,C14] [--jobs 3]

For each seeded/<id>: tools/seedeval.py with the check of the seed's own property (plus, for seeds that a different check is
known to catch, the checks named in meta.json's "also_run").  Writes checks_run_final / caught_by / confirmed_by_me.
Seeds are evaluated `--jobs` at a time (each evaluation already uses all cores for its check).
"""
import json
import os
import subprocess
import sys
from concurrent.futures import ThreadPoolExecutor

ROOT = os.path.dirname(os.path.dirname(os.path.abspath(__file__)))


def one(sd, extra):
    d = os.path.join(ROOT, "seeded", sd)
    meta = json.load(open(os.path.join(d, "meta.json")))
    props = [meta["property"]] + [p for p in meta.get("also_run", []) if p != meta["property"]] + [p for p in extra if p != meta["property"]]
    p = subprocess.run([sys.executable, os.path.join(ROOT, "tools", "seedeval.py"), d, "--props", ",".join(props)], capture_output=True, text=True)
    try:
        r = json.loads(p.stdout[p.stdout.index("{"):])
    except Exception:
        return sd, None, p.stdout[-300:] + p.stderr[-300:]
    c = meta.setdefault("confirmed_by_me", {})
    c.update({"patch_applies_to_current_repo": r.get("patch_applies"), "pinned_suite_passes_with_change": r.get("suite_passes_with_change"),
              "demo_fails_with_change": r.get("demo_fails_with_change"), "demo_passes_without_change": r.get("demo_passes_without"),
              "suite_tail": r.get("suite_tail")})
    meta["checks_run_final"] = {k: {"rc": v["rc"], "keys": v["keys"]} for k, v in r.get("checks", {}).items()}
    meta["caught_by"] = r.get("caught_by", [])
    json.dump(meta, open(os.path.join(d, "meta.json"), "w"), indent=1)
    return sd, r, None


def main():
    a = sys.argv[1:]
    rnd = None
    only = None
    extra = []
    jobs = 3
    i = 0
    while i < len(a):
        if a[i] == "--round":
            rnd = int(a[i + 1]); i += 1
        elif a[i] == "--only":
            only = a[i + 1].split(","); i += 1
        elif a[i] == "--extra":
            extra = a[i + 1].split(","); i += 1
        elif a[i] == "--jobs":
            jobs = int(a[i + 1]); i += 1
        i += 1
    seeds = sorted(x for x in os.listdir(os.path.join(ROOT, "seeded")) if os.path.exists(os.path.join(ROOT, "seeded", x, "meta.json")))
    if rnd is not None:
        seeds = [x for x in seeds if {"a": 1, "b": 1, "c": 2, "d": 2, "e": 3, "f": 3, "g": 4, "h": 4, "i": 5, "j": 5, "k": 6, "l": 6, "m": 7, "n": 7}.get(x[-1]) == rnd]
    if only:
        seeds = [x for x in seeds if x in only]
    missed = []
    with ThreadPoolExecutor(jobs) as ex:
        for sd, r, err in ex.map(lambda s: one(s, extra), seeds):
            if r is None:
                print(sd, "EVALUATION FAILED", err)
                missed.append(sd)
                continue
            ok = r.get("patch_applies") and r.get("suite_passes_with_change") and r.get("demo_fails_with_change") and r.get("demo_passes_without")
            print(sd, "confirmed" if ok else f"NOT-CONFIRMED {[r.get(k) for k in ('patch_applies', 'suite_passes_with_change', 'demo_fails_with_change', 'demo_passes_without')]}",
                  "caught_by", r.get("caught_by"), {k: v["keys"][:3] for k, v in r.get("checks", {}).items() if v["rc"] == 1}, flush=True)
            if not r.get("caught_by"):
                missed.append(sd)
    print(f"{len(seeds)} seeds, {len(missed)} not caught: {missed}")
    return 0


if __name__ == "__main__":
    sys.exit(main())
