#!/usr/bin/env python3
"""Evaluate one seeded change (a directory with patch.diff + seed_demo.py) against the checks.

usage: tools/seedeval.py DIR [--props C07,C09 | --all] [--tier quick] [--keep]

1. copies /repo (working tree, without .git) to a scratch directory under /dev/shm twice: clean and patched (patch -p1);
2. confirms: pinned suite passes on the patched copy; the demonstration fails on the patched copy and passes on the clean one;
3. runs the named checks with VF_REPO=<patched copy> and reports exit codes and violation keys;
4. removes the scratch copies.
Prints one JSON object.
"""
import json
import os
import shutil
import subprocess
import sys
import tempfile

ROOT = os.path.dirname(os.path.dirname(os.path.abspath(__file__)))
PY = "/venv/bin/python"


def run(cmd, cwd, env=None, timeout=1800):
    p = subprocess.run(cmd, cwd=cwd, env=env, capture_output=True, text=True, timeout=timeout)
    return p.returncode, (p.stdout + p.stderr)


def demo(copy, demofile):
    """the demonstration keeps the place it was written for: <repo root>/SEED/<variant>/seed_demo.py, run from the root"""
    env = dict(os.environ, PYTHONPATH=copy)
    variant = os.path.basename(os.path.dirname(demofile)) or "x"
    rel = os.path.join("SEED", variant, "seed_demo.py")
    dst = os.path.join(copy, rel)
    os.makedirs(os.path.dirname(dst), exist_ok=True)
    shutil.copy(demofile, dst)
    src = open(demofile).read()
    if "def test_" in src:
        rc, out = run([PY, "-m", "pytest", "-q", "-p", "no:cacheprovider", rel], copy, env, 900)
    else:
        rc, out = run([PY, rel], copy, env, 900)
    shutil.rmtree(os.path.join(copy, "SEED"), ignore_errors=True)
    return rc, out[-600:]


def main():
    args = sys.argv[1:]
    d = os.path.abspath(args[0])
    props = None
    tier = "quick"
    i = 1
    while i < len(args):
        if args[i] == "--props":
            props = args[i + 1].split(",")
            i += 1
        elif args[i] == "--all":
            props = [c["property_id"] for c in json.load(open(os.path.join(ROOT, "MANIFEST.json")))["checks"]]
        elif args[i] == "--tier":
            tier = args[i + 1]
            i += 1
        i += 1
    base = tempfile.mkdtemp(prefix="vf_seed_", dir="/dev/shm")
    res = {"seed": d}
    try:
        ign = shutil.ignore_patterns(".git", "__pycache__", "*.egg-info", "docs", ".pytest_cache", "SEED")
        clean, patched = os.path.join(base, "clean"), os.path.join(base, "patched")
        shutil.copytree("/repo", clean, ignore=ign)
        shutil.copytree("/repo", patched, ignore=ign)
        rc, out = run(["patch", "-p1", "-i", os.path.join(d, "patch.diff")], patched)
        if rc != 0:
            # the tree has moved since the change was written: three-way merge against the blobs the diff names (they are in
            # /repo's history), in a throw-away worktree; conflicts are real overlaps and are reported as "does not apply"
            shutil.rmtree(patched, ignore_errors=True)
            shutil.copytree("/repo", patched, ignore=ign)
            wt = os.path.join(base, "wt")
            rc_w, out_w = run(["git", "-C", "/repo", "worktree", "add", "--detach", wt, "HEAD"], base)
            try:
                if rc_w == 0:
                    rc, out = run(["git", "apply", "--3way", os.path.join(d, "patch.diff")], wt)
                    if rc == 0:
                        for root, dirs, files in os.walk(os.path.join(wt, "asyncfix")):
                            for f in files:
                                if f.endswith(".py"):
                                    src = os.path.join(root, f)
                                    dst = os.path.join(patched, os.path.relpath(src, wt))
                                    os.makedirs(os.path.dirname(dst), exist_ok=True)
                                    shutil.copy(src, dst)
                        res["patch_applied_by"] = "three-way merge (git apply --3way): the tree moved since the change was written"
            finally:
                run(["git", "-C", "/repo", "worktree", "remove", "--force", wt], base)
        res["patch_applies"] = rc == 0
        if rc != 0:
            res["patch_output"] = out[-400:]
            print(json.dumps(res, indent=1))
            return 1
        rc, out = run([PY, "-m", "pytest", "-q", "-p", "no:cacheprovider", "--timeout=600"], patched, dict(os.environ, PYTHONPATH=patched))
        res["suite_passes_with_change"] = rc == 0
        res["suite_tail"] = out.strip().splitlines()[-1][:120] if out.strip() else ""
        demofile = os.path.join(d, "seed_demo.py")
        if os.path.exists(demofile):
            rc1, o1 = demo(patched, demofile)
            rc0, o0 = demo(clean, demofile)
            res["demo_fails_with_change"] = rc1 != 0
            res["demo_passes_without"] = rc0 == 0
            if rc0 != 0:
                res["demo_clean_output"] = o0
        res["checks"] = {}
        for p in props or []:
            env = dict(os.environ, VF_REPO=patched, VF_EVIDENCE_DIR=os.path.join(base, "evidence"))
            rc, out = run([os.path.join(ROOT, "check"), p, tier], ROOT, env, 7200)
            keys = [l.split("key=")[1].split(" ::")[0] for l in out.splitlines() if l.strip().startswith("violated:")]
            inc = [l[:200] for l in out.splitlines() if l.startswith("INCONCLUSIVE")]
            res["checks"][p] = {"rc": rc, "keys": keys[:6], "inconclusive": inc[:1]}
        res["caught_by"] = [p for p, v in res["checks"].items() if v["rc"] == 1]
        print(json.dumps(res, indent=1))
        return 0
    finally:
        shutil.rmtree(base, ignore_errors=True)


if __name__ == "__main__":
    sys.exit(main())
