#!/usr/bin/env python3
"""Print the DESIGN.md table of one round of seeded changes from seeded/*/meta.json.   usage: tools/seedtable.py ROUND"""
import json
import os
import sys

ROOT = os.path.dirname(os.path.dirname(os.path.abspath(__file__)))


def main():
    rnd = int(sys.argv[1])
    print("| seed | change (sub-agent's words, abridged) | caught at first evaluation | caught now | first key |")
    print("|---|---|---|---|---|")
    for d in sorted(os.listdir(os.path.join(ROOT, "seeded"))):
        mp = os.path.join(ROOT, "seeded", d, "meta.json")
        if not os.path.exists(mp):
            continue
        m = json.load(open(mp))
        if m.get("round") != rnd:
            continue
        first = ", ".join(m.get("caught_by_at_first_evaluation") or []) or "—"
        now = ", ".join(m.get("caught_by") or []) or "—"
        keys = (m.get("checks_run_final", {}).get(m["property"], {}) or {}).get("keys") or []
        summ = (m.get("summary") or "").replace("|", "/").replace("\n", " ")[:150]
        print(f"| {d} | {summ} | {first} | {now} | {('`' + keys[0] + '`') if keys else ''} |")


if __name__ == "__main__":
    main()
