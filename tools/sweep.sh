#!/bin/bash
# usage: tools/sweep.sh quick|thorough "0 1 2" [C01 C02 ...]   -- prints one line per (check, seed); details only when not clean
cd "$(dirname "$0")/.."
tier=${1:-quick}; seeds=${2:-"0 1"}; shift 2
props=${@:-$(python3 -c "import json;print(' '.join(c['property_id'] for c in json.load(open('MANIFEST.json'))['checks']))")}
for p in $props; do for s in $seeds; do
  out=$(VERIF_SEED=$s ./check $p $tier 2>&1); rc=$?
  echo "$p seed=$s rc=$rc $(echo "$out" | grep -c '^KNOWN-FINDING') known  $(echo "$out" | grep -E "^$p (quick|thorough)" | sed -E 's/oracles=.*wall=/wall=/' | cut -c1-110)"
  if [ $rc -ne 0 ]; then echo "$out" | grep -E "violated:|INCONCLUSIVE" | cut -c1-260 | head -6; fi
done; done
