"""C01  Encode/decode round trip preserves every well-formed message."""
import random

from vf.checks import msggen
from vf.ref import fixwire

META = {
    "level": "exploration",
    "rule": ("messages generated from FIXProtocol44.repeating_groups taken as data (enumerated: every group key x {1,2 items} x "
             "{no optional member, all, each single one}; random: msg types standard+custom, plain tags 1..99999, printable-ASCII "
             "values incl. framing look-alikes, 0-3 groups nested as deep as the table allows, 7 sequence-number modes (new, PossDup, SequenceReset, raw, PossDupFlag=N with and without a stale MsgSeqNum, stale MsgSeqNum)); "
             "distinct = hash of (type, body structure, mode, seq); non-trivial = has a group, a framing look-alike value or a "
             "non-default numbering mode"),
    "assumptions": ["values are single-byte printable text without SOH (the property's domain)",
                    "plain tags that follow a group are members of no group (FIX without a message dictionary is ambiguous otherwise)"],
}
REQUIRED_ORACLES = ["roundtrip", "reference-parse", "seqnum"]
REQUIRED_COUNTERS = ["dialect_protocol_cases", "encodes_right_after_a_refused_one"]
NSHARDS = 16
RANDOM = {"quick": 5000, "thorough": 40000}
MODES = ["normal", "normal", "normal", "possdup", "seqreset", "raw", "dupflag-n", "dupflag-n-stale34", "stale34"]


def plan(tier, seed):
    return [{"shard": i, "n": RANDOM[tier], "nshards": NSHARDS, "kmax": 3 if tier == "quick" else 5} for i in range(NSHARDS)]


def _env():
    from asyncfix import FMsg, Journaler
    from asyncfix.codec import Codec
    from asyncfix.protocol import FIXProtocol44
    proto = FIXProtocol44()
    codec = Codec(proto)
    tab = msggen.Table(proto.repeating_groups)
    return proto, codec, tab, FMsg, Journaler


def _dialect_env():
    """A venue dialect of FIX 4.4 (the table is "the protocol's", i.e. a parameter): own groups, a standard group extended by a
    nested venue group, one standard group not used.  Built AFTER the stock codec, in the same process, same BeginString."""
    from asyncfix import FMsg, Journaler
    from asyncfix.codec import Codec
    from asyncfix.protocol import FIXProtocol44
    g = {str(getattr(k, "value", k)): [str(getattr(m, "value", m)) for m in v] for k, v in FIXProtocol44.repeating_groups.items()}
    g["20010"] = ["20011", "20012", "20013"]
    g["20013"] = ["20014", "20015"]
    g["453"] = g["453"] + ["20020"]
    g["20020"] = ["20021", "20022"]
    del g["576"]

    class VenueDialect44(FIXProtocol44):
        repeating_groups = g
    proto = VenueDialect44()
    codec = Codec(proto)
    return proto, codec, msggen.Table(g), FMsg, Journaler


def enumerated(tab):
    out = []
    for k in tab.usable:
        mem = tab.t[k]
        for n in (1, 2):
            for opt in ["none", "all"] + [("only", m) for m in mem[1:]]:
                out.append((k, n, opt))
    return out


def rand_mt(rnd, FMsg):
    if rnd.random() < 0.7:
        m = rnd.choice(list(FMsg))
        if m.value == "4":
            return rand_mt(rnd, FMsg)
        return m
    al = "0123456789ABCDEFGHIJKLMNOPQRSTUVWXYZabcdefghijklmnopqrstuvwxyz"
    while True:
        s = "".join(rnd.choice(al) for _ in range(rnd.randrange(1, 4)))
        if s != "4":
            return s


def run_case(acc, env, body, mt, mode, n0, carried, case_id, rnd_desc):
    proto, codec, tab, FMsg, Journaler = env
    from asyncfix import FIXMessage
    j = Journaler()
    sess = j.create_or_load("TGT", "SND")
    sess.next_num_out = n0
    body = list(body)
    if mode == "possdup":
        body = [("43", "Y"), ("34", str(carried))] + body
    elif mode == "seqreset":
        mt = FMsg.SEQUENCERESET
        body = [("34", str(carried)), ("36", str(carried + 3))] + [b for b in body if b[0] not in ("36",)]
    elif mode == "raw":
        body = [("34", str(carried))] + body
    elif mode == "dupflag-n":             # PossDupFlag present but 'N': not a retransmission, a number is allocated
        body = [("43", "N")] + body
    elif mode == "dupflag-n-stale34":     # e.g. a decoded message relayed on another session: its old 34 must not be reused
        body = [("43", "N"), ("34", str(carried))] + body
    elif mode == "stale34":               # a new message that still carries a MsgSeqNum tag
        body = [("34", str(carried))] + body
    mtv = mt.value if isinstance(mt, FMsg) else mt
    if (n0 + carried + len(body)) % 2:
        mt = mtv          # FIXMessage documents msg_type: str | FMsg; the plain string must behave like the enum member
    nontriv = msggen.has_group(body) or mode != "normal" or any(any(x in v for x in ("=", "FIX", "\x01")) for v in msggen.all_values(body))
    acc.case((mtv, body, mode, n0, carried), nontrivial=nontriv)
    witness = {"mt": mtv, "body": body, "mode": mode, "n0": n0, "carried": carried}
    try:
        msg = msggen.build_container(FIXMessage, body, mt)
    except Exception as e:  # C18's subject; not C01's
        acc.add("generator_build_failed")
        return
    if (n0 + carried + len(body)) % 11 == 0:
        # the codec is an object with a life: a message it refused (SOH inside a value that is not the first field) leaves nothing
        # behind for the next one
        from asyncfix import FIXMessage as _FM
        acc.add("encodes_right_after_a_refused_one")
        try:
            codec.encode(_FM("D", {11: "refused", 55: "SYM", 58: "a\x01b"}), sess)
            acc.add("refused_encode_was_not_refused")
        except Exception:
            pass
        sess.next_num_out = n0
    try:
        s = codec.encode(msg, sess, raw_seq_num=(mode == "raw"))
        wire = s.encode("utf-8")
    except Exception as e:
        acc.violation("encode-raised", f"encode raised {type(e).__name__}: {e}", witness, case_id)
        return
    witness["wire"] = fixwire.show(wire)
    marker = b"8=FIX." in wire[1:]
    def viol(key, what):
        # (until repo fix 78e4c92 every failure of a message whose wire form contained '8=FIX.' inside a value was one known mechanism;
        #  it is repaired, so failures keep their own keys; the old key is used only for the old symptom: nothing decoded at all)
        if marker and key in ("roundtrip:none-returned",):
            acc.violation("value-contains-beginstring-marker", f"[{key}] {what}", witness, case_id)
        else:
            acc.violation(key, what, witness, case_id)
    # --- sequence number
    acc.oracle("seqnum")
    allocates = mode in ("normal", "dupflag-n", "dupflag-n-stale34", "stale34")
    exp_seq = str(n0) if allocates else str(carried)
    exp_counter = n0 + 1 if allocates else n0
    if sess.next_num_out != exp_counter:
        viol("seq:counter", f"session counter {sess.next_num_out}, expected {exp_counter} (mode {mode})")
    # --- second witness: independent parse of the wire form
    acc.oracle("reference-parse")
    exp_body = [b for b in body if b[0] != "34"]
    exp_flat_body = msggen.flatten(exp_body)
    try:
        ref = fixwire.parse(wire)
    except fixwire.FrameError as e:
        viol("wire:reference-parse", f"independent parser rejects the encoder's output: {e}")
        ref = None
    if ref is not None:
        hdr = ref[:7]
        exp_hdr_tags = ["8", "9", "35", "49", "56", "34", "52"]
        if [t for t, _ in hdr] != exp_hdr_tags:
            viol("wire:header-order", f"header tags {[t for t, _ in hdr]}")
        elif (hdr[2][1], hdr[3][1], hdr[4][1], hdr[5][1]) != (mtv, "SND", "TGT", exp_seq):
            viol("wire:header-values", f"35/49/56/34 = {hdr[2][1], hdr[3][1], hdr[4][1], hdr[5][1]} expected {(mtv, 'SND', 'TGT', exp_seq)}")
        if ref[7:-1] != exp_flat_body:
            viol("wire:body", f"wire body fields differ from the message: {ref[7:-1][:8]} vs {exp_flat_body[:8]}")
    # --- decode
    acc.oracle("roundtrip")
    try:
        dmsg, consumed, raw = codec.decode(wire)
    except Exception as e:
        viol("decode-raised", f"decode raised {type(e).__name__}: {e}")
        return
    if dmsg is None:
        viol("roundtrip:none-returned", f"decode returned no message (consumed={consumed})")
        return
    if consumed != len(wire):
        viol("roundtrip:consumed", f"consumed {consumed} of {len(wire)}")
    if raw != wire:
        viol("roundtrip:raw", "returned raw bytes differ from the frame")
    dt = dmsg.msg_type
    dtv = dt.value if isinstance(dt, FMsg) else dt
    if dtv != mtv or (mtv in FMsg._value2member_map_) != isinstance(dt, FMsg):
        viol("roundtrip:msgtype", f"decoded type {dt!r} expected {mtv!r}")
    got = msggen.walk_tags(dmsg)
    gh = dict((t, v) for t, v in got[:7] if not isinstance(v, list))
    if [t for t, _ in got[:7]] != ["8", "9", "35", "49", "56", "34", "52"] or got[-1][0] != "10":
        viol("roundtrip:header-layout", f"decoded tag layout {[t for t, _ in got[:7]]} ... {got[-1][0]}")
    else:
        if gh["49"] != "SND" or gh["56"] != "TGT":
            viol("roundtrip:compids", f"decoded CompIDs {gh['49']}/{gh['56']}")
        if gh["34"] != exp_seq:
            viol("seq:header", f"decoded MsgSeqNum {gh['34']} expected {exp_seq}")
        if gh["35"] != mtv:
            viol("roundtrip:msgtype", f"decoded 35={gh['35']}")
        gb = got[7:-1]
        if gb != [(t, v) for t, v in exp_body]:
            viol("roundtrip:body-differs", f"decoded body {gb[:6]} expected {exp_body[:6]}")
    acc.sample({"mode": mode, "wire": fixwire.show(wire)[:300]}, 3)
    # --- the same message object, changed below the top level and encoded again: the second frame is the changed message
    if mode == "normal" and msggen.has_group(body):
        path = _mutate_nested(msg, body, n0 + carried)
        if path is None:
            return
        acc.oracle("re-encode-after-nested-change")
        witness2 = dict(witness, changed=path, body_after=body)
        try:
            wire2 = codec.encode(msg, sess).encode("utf-8")
            ref2 = fixwire.parse(wire2)
        except Exception as e:
            acc.violation("re-encode:raised", f"second encode of the changed message: {type(e).__name__}: {e}", witness2, case_id)
            return
        exp2 = msggen.flatten([b for b in body if b[0] != "34"])
        if ref2[7:-1] != exp2:
            witness2["wire2"] = fixwire.show(wire2)
            acc.violation("re-encode:stale-content", f"after {path} the second frame still carries {[x for x in ref2[7:-1] if x not in exp2][:4]} "
                          f"/ misses {[x for x in exp2 if x not in ref2[7:-1]][:4]}", witness2, case_id)
        elif fixwire.get(ref2, 34) != str(n0 + 1):
            acc.violation("seq:header", f"second frame numbered {fixwire.get(ref2, 34)}, expected {n0 + 1}", witness2, case_id)


def _mutate_nested(msg, body, salt):
    """Change the real message and its model in the same way, as deep as the message goes.  Returns a description or None."""
    # deepest item: follow the last group of the last item while there is one
    cont, model, depth, trail = msg, body, 0, []
    while True:
        groups = [(i, t) for i, (t, v) in enumerate(model) if isinstance(v, list) and v]
        if not groups:
            break
        i, t = groups[-1]
        items_model = model[i][1]
        items_real = cont.get_group_list(t)
        k = len(items_model) - 1
        cont, model, depth = items_real[k], items_model[k], depth + 1
        trail.append(f"{t}[{k}]")
        parent = (items_real, items_model)
    if depth == 0:
        return None
    kind = salt % 3
    plain = [(i, t) for i, (t, v) in enumerate(model) if not isinstance(v, list)]
    if kind == 0 and len(plain) >= 2:
        # change the value of a plain member of the deepest item
        i, t = plain[-1]
        cont.set(t, "CHG", replace=True)
        model[i] = (t, "CHG")
        return f"set {'.'.join(trail)}.{t}=CHG"
    if kind == 1 and len(parent[1]) >= 2:
        # drop the last item of the deepest group through the list the accessor returned
        parent[0].pop()
        parent[1].pop()
        return f"pop last item of {'.'.join(trail[:-1])}.{trail[-1].split('[')[0]}"
    # append a copy of the deepest item to its group through the list the accessor returned
    import copy
    parent[0].append(copy.deepcopy(cont))
    parent[1].append(copy.deepcopy(model))
    return f"append an item to {'.'.join(trail[:-1])}.{trail[-1].split('[')[0]}"


def run_shard(spec, acc):
    env = _env()
    proto, codec, tab, FMsg, Journaler = env
    from vf.core.reach import Reach
    from asyncfix.session import FIXSession
    acc.reach_obj = Reach({"Codec.encode": codec.encode, "Codec._addTag": codec._addTag, "Codec.decode": codec.decode,
                           "FIXSession.allocate_next_num_out": FIXSession.allocate_next_num_out}).start()
    shard, nsh = spec["shard"], spec["nshards"]
    from vf.sim import vclock
    vclock.install(vclock.VClock())
    # directed probes for the listed findings (so that each is reproduced on every run)
    if shard == 0:
        for i, body in enumerate([[("58", "FIX.4.4 session")], [("1", "8=FIX.4.4")]]):
            if acc.want(f"probe:{i}"):
                run_case(acc, env, body, FMsg.NEWORDERSINGLE, "normal", 3, 0, f"probe:{i}", None)
    # enumerated part
    en = enumerated(tab)
    for i, (k, n, opt) in enumerate(en):
        if i % nsh != shard:
            continue
        cid = f"enum:{i}"
        if not acc.want(cid):
            continue
        rnd = random.Random(f"{spec['seed']}:C01:enum:{i}")
        items = msggen.gen_items(rnd, tab, k, 2, "ascii", opt, nitems=n)
        body = [("11", "id1"), (k, items)] + ([("58", "tail")] if "58" not in tab.members_any else [])
        run_case(acc, env, body, FMsg.NEWORDERSINGLE, "normal", 7, 0, cid, None)
    acc.add("enumerated_group_cases_total", len([1 for i in range(len(en)) if i % nsh == shard]))
    denv = _dialect_env()
    dtab = denv[2]
    for i, (k, n, opt) in enumerate(enumerated(dtab)):
        if i % nsh != shard or not ({k} | dtab.desc[k]) & {"20010", "20013", "20020"}:
            continue
        cid = f"enum-dialect:{i}"
        if not acc.want(cid):
            continue
        rnd = random.Random(f"{spec['seed']}:C01:enum-dialect:{i}")
        items = msggen.gen_items(rnd, dtab, k, 3, "ascii", opt, nitems=n)
        run_case(acc, denv, [("11", "id1"), (k, items), ("58", "tail")], FMsg.NEWORDERSINGLE, "normal", 7, 0, cid, None)
        acc.add("dialect_protocol_cases")
    # random part
    for c in range(spec["n"]):
        cid = f"rand:{shard}:{c}"
        if not acc.want(cid):
            continue
        rnd = random.Random(f"{spec['seed']}:C01:{shard}:{c}")
        mode = rnd.choice(MODES)
        mt = rand_mt(rnd, FMsg)
        use = env
        if c % 4 == 3:
            use = denv
            acc.add("dialect_protocol_cases")
        body = msggen.gen_body(rnd, use[2], kmax=spec["kmax"])
        n0 = rnd.choice([1, 2, 9, 10, 99, 1000, 10 ** 6, 2 ** 31, 2 ** 40, rnd.randrange(1, 10 ** 9)])
        carried = rnd.choice([1, 5, n0, n0 - 1 if n0 > 1 else 3, 10 ** 7, rnd.randrange(1, 10 ** 6)])
        run_case(acc, use, body, mt, mode, n0, carried, cid, None)
    acc.reach_obj.stop()
