"""C02  Every frame put on the wire is a well-formed FIX frame (codec level + transport tap)."""
import random
import re

from vf.checks import msggen
from vf.ref import fixwire

META = {
    "level": "exploration",
    "rule": ("(a) codec: C01's generator plus values over Latin-1 / BMP / astral / lone surrogates, encoded as send_msg does "
             "(Codec.encode(...).encode('utf-8')): outcome must be reference-valid bytes or an exception; (b) session: random "
             "histories of a real connection against a scripted peer (logon both roles, app sends, TestRequest/Heartbeat, gap -> "
             "ResendRequest, inbound ResendRequest -> replay + gap fills, SequenceReset, Logout, integrity failures, watchdog "
             "TestRequest) with every write() tapped and parsed by the independent framer; distinct = hash of wire bytes / history; "
             "non-trivial = codec case with group or non-ASCII or look-alike value; history that emitted >= 3 frame kinds"),
    "assumptions": ["an empty field value is not treated as malformed (the statement does not name it)"],
}
REQUIRED_ORACLES = ["codec-frame", "tap-frame"]
NSHARDS = 16
N_CODEC = {"quick": 2500, "thorough": 30000}
N_HIST = {"quick": 250, "thorough": 4000}


def plan(tier, seed):
    return [{"shard": i, "nshards": NSHARDS, "n_codec": N_CODEC[tier], "n_hist": N_HIST[tier]} for i in range(NSHARDS)]


def reason_class(e):
    s = str(e)
    s = re.sub(r"[0-9]+", "N", s.split(":")[0])
    return s[:40]


def check_frame(acc, wire, where, witness, case_id):
    """The deciding oracle for one byte string."""
    acc.oracle("codec-frame" if where == "codec" else "tap-frame")
    try:
        f = fixwire.parse(wire)
        return f
    except fixwire.FrameError as e:
        if any(b >= 0x80 for b in wire):
            acc.violation("non-ascii-length-and-checksum", f"[{where}] {e}", witness, case_id)
        else:
            acc.violation(f"{where}-frame-malformed:{reason_class(e)}", f"{e} :: {fixwire.show(wire)[:300]}", witness, case_id)
        return None


def codec_part(spec, acc):
    from asyncfix import FIXMessage, FMsg, Journaler
    from asyncfix.codec import Codec
    from asyncfix.protocol import FIXProtocol44
    from vf.checks.c01 import rand_mt
    proto = FIXProtocol44()
    codec = Codec(proto)
    tab = msggen.Table(proto.repeating_groups)
    shard = spec["shard"]
    probes = [[("55", "é")], [("58", "ЮН")], [("58", "\U0001F600")]] if shard == 0 else []
    for c in range(-len(probes), spec["n_codec"]):
        cid = f"codec:{shard}:{c}"
        if not acc.want(cid):
            continue
        rnd = random.Random(f"{spec['seed']}:C02:{shard}:{c}")
        if c < 0:
            body, charset = probes[-c - 1], "uni"
        else:
            charset = rnd.choice(["ascii", "uni", "uni"])
            body = msggen.gen_body(rnd, tab, kmax=3, charset=charset)
        mt = rand_mt(rnd, FMsg)
        j = Journaler()
        sess = j.create_or_load("TGT", "SND")
        n0 = rnd.choice([1, 7, 99999, 2 ** 33])
        sess.next_num_out = n0
        nonascii = any(ord(ch) > 127 for v in msggen.all_values(body) for ch in v)
        acc.case((getattr(mt, "value", mt), body, n0), nontrivial=nonascii or msggen.has_group(body))
        witness = {"mt": getattr(mt, "value", mt), "body": body}
        try:
            msg = msggen.build_container(FIXMessage, body, mt)
        except Exception:
            acc.add("generator_build_failed")
            continue
        if c >= 0 and rnd.random() < 0.03:
            # a message decoded from a frame in which a tag repeats outside any known group carries the decoder's error marker
            # for that tag: it cannot be represented on the wire and must be refused, not transmitted with the marker spelled out
            dupframe = fixwire.msg("D", 7, "SND", "TGT", [(11, "x"), (20002, "2"), (20003, "a"), (20004, "b"), (20003, "c"), (20004, "d")])
            dm, _, _ = codec.decode(dupframe)
            if dm is not None:
                for t_ in ("8", "9", "35", "10", "52", "49", "56"):
                    if t_ in dm:
                        del dm[t_]
                asnew = rnd.random() < 0.5
                if asnew:
                    del dm[34]            # relayed as a new message: the refusal must not cost the session a number either
                else:
                    dm[43] = "Y"
                n_before_marker = sess.next_num_out
                try:
                    out = codec.encode(dm, sess)
                    if "RepeatingTagError" in out or "<class" in out:
                        acc.violation("unrepresentable-message-transmitted", "a decoded message carrying the repeated-tag error marker was encoded: " + out.replace(chr(1), "|")[:200], witness, cid)
                except Exception as e:
                    acc.oracle("codec-refusal")
                    acc.addmap("codec_refusals", "marker:" + type(e).__name__)
                    if sess.next_num_out != n_before_marker:
                        acc.violation("refusal-consumed-a-number", f"the encoder refused a message carrying the repeated-tag marker ({type(e).__name__}) but the "
                                      f"session counter went {n_before_marker} -> {sess.next_num_out}", witness, cid)
        if c >= 0 and rnd.random() < 0.08:
            # first a message the encoder must refuse half-way (PossDup / SequenceReset without a number): whatever it did
            # to the shared codec must not leak into the next frame, which is encoded right below
            bad = rnd.choice([lambda: FIXMessage("D", {11: "refused", 43: "Y", 58: "y" * rnd.randrange(1, 60)}), lambda: FIXMessage("4", {36: 5, 123: "Y"})])()
            n_before = sess.next_num_out
            try:
                codec.encode(bad, sess)
                acc.violation("incomplete-retransmission-encoded", "a PossDup / SequenceReset without MsgSeqNum was encoded", witness, cid)
            except Exception as e:
                acc.oracle("codec-refusal")
                acc.addmap("codec_refusals", "forced:" + type(e).__name__)
                if sess.next_num_out != n_before:
                    acc.violation("refusal-consumed-a-number", f"counter {n_before} -> {sess.next_num_out}", witness, cid)
        if c >= 0 and rnd.random() < 0.06:
            # a value (or the message type) that contains the field separator cannot be represented: refused, or at least never
            # written out as a frame an independent parser rejects
            sv = rnd.choice(["a\x01b", "x\x0110=000\x01", "\x01", "tail\x01", "\x0135=8", "v\x019=5"])
            where = rnd.choice(["plain", "plain", "group", "msgtype", "data", "data"])
            try:
                if where == "plain":
                    bad = FIXMessage("D", {11: "soh", rnd.choice([58, 1, 55]): sv})
                elif where == "data":
                    # a FIX data field with its Length tag present and numerically right, but not directly in front of it (the pair is
                    # only parseable when adjacent): still a frame no parser can take apart
                    dt, lt = rnd.choice([(96, 95), (213, 212), (89, 93), (355, 354)])
                    order = rnd.choice(["data-first", "tag-between"])
                    bad = FIXMessage("D", {11: "soh"})
                    if order == "data-first":
                        bad[dt] = sv
                        bad[lt] = len(sv)
                    else:
                        bad[lt] = len(sv)
                        bad[58] = "between"
                        bad[dt] = sv
                elif where == "group":
                    bad = FIXMessage("D", {11: "soh"})
                    bad.set_group(453, [{448: "p1", 447: "D"}, {448: sv, 447: "D"}])
                else:
                    bad = FIXMessage("D" + sv, {11: "soh"})
                out = codec.encode(bad, sess).encode("utf-8")
            except Exception as e:
                acc.oracle("codec-refusal")
                acc.addmap("codec_refusals", f"soh-in-{where}:" + type(e).__name__)
            else:
                acc.add("soh_values_encoded")
                try:
                    fixwire.parse(out)
                except fixwire.FrameError as e:
                    acc.violation("unrepresentable-message-transmitted:separator-inside-a-value", f"{where} value {sv!r} was encoded into a frame an independent "
                                  f"parser rejects ({e}): " + fixwire.show(out)[:200], witness, cid)
        try:
            wire = codec.encode(msg, sess).encode("utf-8")
        except Exception as e:
            # refusal: allowed ("refused with an error instead of being transmitted")
            acc.oracle("codec-refusal")
            acc.addmap("codec_refusals", type(e).__name__)
            continue
        witness["wire"] = fixwire.show(wire)[:400]
        f = check_frame(acc, wire, "codec", witness, cid)
        if f is not None and nonascii:
            acc.add("codec_nonascii_valid")
        acc.sample({"codec": fixwire.show(wire)[:200]}, 2)


# ------------------------------------------------------------------ session part

async def history(rnd, acc, clock, cid):
    from asyncfix import FIXMessage, Journaler
    from asyncfix.connection import ConnectionRole, ConnectionState
    from vf.sim import endpoint as E
    from vf.sim.net import settle, advance, SpinAbort
    role = rnd.choice(["acceptor", "initiator"])
    hb = rnd.choice([3, 5, 30])
    j = Journaler()
    n_out0 = rnd.choice([1, 1, 5, 1000])
    if n_out0 != 1:
        s = j.create_or_load("PEER", "ME")
        j.set_seq_num(s, next_num_out=n_out0, next_num_in=1)
    if n_out0 == 5 and rnd.random() < 0.7:
        # the journal has history from an earlier run / another engine sharing the store: frames whose SendingTime is written in whole
        # seconds (legal FIX 4.4), i.e. of a different width than what is written today - a replay is made from these bytes
        from asyncfix.message import MessageDirection as D_
        s = j.create_or_load("PEER", "ME")
        for q in range(1, 5):
            j.persist_msg(fixwire.msg("D", q, "ME", "PEER", [(11, f"hist{q}"), (58, "w" * q)], sending_time=rnd.choice(["20230919-07:13:26", "20230919-07:13:26.5", "20230919-07:13:26.123456"])),
                          s, D_.OUTBOUND)
        acc.add("journals_with_history_in_another_sendingtime_width")
    ep = E.new_endpoint("generic", "ME", "PEER", j, hb=hb, name="ME",
                        replay_filter=lambda m: not str(m.get(11, "")).startswith("decl"))
    ep.vf_tap = E.Tap(clock, "ME")
    E.attach(ep, clock, ConnectionRole.ACCEPTOR if role == "acceptor" else ConnectionRole.INITIATOR)
    E.start_reader(ep)
    if rnd.random() < 0.5:
        E.start_heartbeat(ep)
    peer = E.Peer("PEER", "ME", clock)
    trace = [role, f"hb={hb}", f"out0={n_out0}"]
    kinds = set()
    cnt = 0

    async def feed(fr):
        ep.vf_reader.feed(fr)
        await settle()

    try:
        if role == "initiator":
            await ep.send_msg(FIXMessage("A", {98: 0, 108: hb}))
            await feed(peer.logon(hb=hb))
        else:
            await feed(peer.logon(hb=hb))
        for step in range(rnd.randrange(4, 22)):
            if ep.connection_state <= ConnectionState.DISCONNECTED_BROKEN_CONN:
                break
            a = rnd.choice(["send", "send", "send_uni", "send_grp", "send_big", "send_refused", "testreq", "app_in", "gap", "resend_req", "seqreset", "hb_bad",
                            "advance", "advance", "logout_in", "toolow", "disconnect_logout", "send_hb", "send_decl", "send_dupn"])
            trace.append(a)
            cnt += 1
            if a in ("send", "send_uni", "send_grp", "send_hb", "send_decl", "send_big", "send_refused", "send_dupn"):
                if a == "send_big":
                    # a frame larger than any buffer size a sender might slice by: every write() must still be whole frames
                    m = FIXMessage("B", {148: f"big{cnt}", 58: "x" * rnd.choice([4090, 4200, 9000, 20000, 66000, 140000])})
                elif a == "send_refused":
                    # the encoder refuses these after it has started building the frame; the NEXT frame must be unaffected
                    m = rnd.choice([lambda: FIXMessage("D", {11: f"r{cnt}", 43: "Y"}), lambda: FIXMessage("4", {36: 99, 123: "Y"})])()
                elif a == "send":
                    m = FIXMessage("D", {11: f"c{cnt}", 58: msggen.rvalue(rnd, "ascii", 20) or "x"})
                elif a == "send_uni":
                    m = FIXMessage("D", {11: f"u{cnt}", 58: "café " + msggen.rvalue(rnd, "uni", 8)})
                elif a == "send_decl":
                    m = FIXMessage("D", {11: f"decl{cnt}"})
                elif a == "send_hb":
                    m = FIXMessage("0")
                elif a == "send_dupn":
                    # an original message that spells out PossDupFlag=N (and, some do, an OrigSendingTime): journaled with those fields;
                    # a later replay has to replace them, so its frame is not "the journaled one plus two fields"
                    m = FIXMessage("D", {11: f"n{cnt}", 58: "w" * rnd.randrange(1, 12), **rnd.choice([{43: "N"}, {43: "N", 122: "20230102-03:04:05"}, {97: "Y", 43: "N"}])})
                    acc.add("originals_sent_with_an_explicit_possdupflag_n")
                else:
                    m = FIXMessage("D", {11: f"g{cnt}"})
                    m.set_group(453, [{448: "p1", 447: "D", 452: 1}, {448: "p2", 802: [{523: "s", 803: 1}]}])
                try:
                    await ep.send_msg(m)
                except Exception as e:
                    acc.addmap("send_exceptions", type(e).__name__)
            elif a == "testreq":
                await feed(peer.frame("1", None, [(112, f"T{cnt}")]))
            elif a == "app_in":
                await feed(peer.frame("8", None, [(11, f"p{cnt}")]))
            elif a == "gap":
                peer.next_out += rnd.choice([1, 3])
                await feed(peer.frame("8", None, [(11, f"p{cnt}")]))
            elif a == "resend_req":
                last = ep._session.next_num_out - 1
                b = rnd.choice([1, 1, max(1, last // 2), max(1, last)])
                await feed(peer.frame("2", None, [(7, b), (16, rnd.choice([0, 0, last, b]))]))
            elif a == "seqreset":
                n = peer.next_out
                gf = rnd.choice(["Y", "N"])
                new = n + rnd.choice([1, 3])
                await feed(peer.frame("4", n, [(123, gf), (36, new)]))
                peer.next_out = new
            elif a == "hb_bad":
                await feed(peer.frame("0", None, [(112, "nonsense")]))
            elif a == "advance":
                await advance(rnd.choice([1.0, hb - 0.5, hb + 1.5, 2 * hb + 2]))
            elif a == "logout_in":
                await feed(peer.frame("5", None, [(58, "bye")]))
            elif a == "toolow":
                await feed(peer.frame("8", max(1, peer.next_out - 2), [(11, "low")]))
            elif a == "disconnect_logout":
                try:
                    await ep.disconnect(ConnectionState.DISCONNECTED_WCONN_TODAY, logout_message=rnd.choice(["", "done", "café"]))
                except Exception as e:   # e.g. journal left inconsistent by resend servicing (C06's subject)
                    acc.addmap("send_exceptions", type(e).__name__)
            await settle()
    except SpinAbort as e:
        acc.add("spin_aborts")
    finally:
        E.stop_tasks(ep)
    frames = ep.vf_tap.frames()
    witness = {"trace": trace}
    for i, fr in enumerate(frames):
        w = dict(witness)
        w["frame_index"] = i
        w["frame"] = fixwire.show(fr)[:400]
        f = check_frame(acc, fr, "tap", w, cid)
        if f is not None:
            kinds.add(fixwire.get(f, 35) + ("/dup" if fixwire.get(f, 43) == "Y" else "") + ("/gf" if fixwire.get(f, 123) == "Y" else ""))
    for k in kinds:
        acc.addmap("tap_frame_kinds", k)
    acc.add("log_exceptions", ep.vf_log.counts.get("exception", 0))
    return trace, len(frames), kinds


def session_part(spec, acc):
    from vf.sim import vclock
    shard = spec["shard"]
    for c in range(spec["n_hist"]):
        cid = f"hist:{shard}:{c}"
        if not acc.want(cid):
            continue
        rnd = random.Random(f"{spec['seed']}:C02h:{shard}:{c}")

        async def go(clock):
            return await history(rnd, acc, clock, cid)
        trace, nfr, kinds = vclock.run(go)
        acc.case(tuple(trace), nontrivial=len(kinds) >= 3)
        acc.add("tap_frames_total", nfr)
        acc.sample({"history": trace, "frames": nfr, "kinds": sorted(kinds)}, 2)


def run_shard(spec, acc):
    from vf.core.reach import Reach
    from asyncfix.codec import Codec
    from asyncfix.connection import AsyncFIXConnection as C
    from vf.sim import vclock
    acc.reach_obj = Reach({"Codec.encode": Codec.encode, "send_msg": C.send_msg, "_process_resend": C._process_resend,
                           "disconnect": C.disconnect, "_check_seqnum_gaps": C._check_seqnum_gaps,
                           "send_test_req": C.send_test_req, "_process_testrequest": C._process_testrequest}).start()
    vclock.install(vclock.VClock())
    codec_part(spec, acc)
    session_part(spec, acc)
    acc.reach_obj.stop()
