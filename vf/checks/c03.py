"""C03  Stream reassembly is independent of how the byte stream is chunked."""
import random

from vf.ref import fixwire

META = {
    "level": "exploration",
    "rule": ("streams of 1-4 valid frames (Heartbeat, TestRequest, NewOrderSingle with nested groups, ExecutionReport with 300-byte Text; built "
             "by the independent framer, numbered from the receiver's expected MsgSeqNum) fed to a real logged-on socket_read_task through a "
             "chunker: ALL 1-cut and 2-cut partitions of short streams, all-1-byte reads, random multi-cut partitions of streams up to 4 kB, "
             "reads larger than 4096, optional marker-free garbage (with / without SOH and '=', incl. stray CheckSum fields, digits 8 and beginnings of the frame-start text) before the first frame and between frames, all 1-cut and near 2-cut partitions of junk-prefixed streams, frames whose Text quotes a BeginString; "
             "oracle = the sent frame list: on_message history, inbound journal rows byte-for-byte, still ACTIVE, no ResendRequest / Logout "
             "on the tap; distinct = (stream id, cut tuple); non-trivial = at least one cut strictly inside a frame"),
    "assumptions": ["garbage that contains the frame-start marker and frames with bad checksums are C10's subject"],
}
REQUIRED_ORACLES = ["delivery", "journal", "state-and-tap"]
REQUIRED_COUNTERS = ["streams_with_a_zero_padded_bodylength", "streams_ending_on_a_full_4096_byte_read", "cases_over_4096_bytes", "cases_with_garbage", "streams_with_a_frame_the_session_layer_chokes_on",
                     "client_connects_with_a_read_boundary_inside_the_first_frame"]
NSHARDS = 16


def plan(tier, seed):
    q = tier == "quick"
    return [{"shard": i, "nshards": NSHARDS, "nstreams": 5 if q else 13, "maxlen2": 160 if q else 330, "nrand": 300 if q else 4000} for i in range(NSHARDS)]


def make_frames(rnd, peer, kinds):
    fr = []
    for k in kinds:
        if k == "hb":
            fr.append(("s", peer.frame("0")))
        elif k == "tr":
            fr.append(("s", peer.frame("1", None, [(112, "TR%d" % rnd.randrange(100))])))
        elif k == "nos":
            fr.append(("a", peer.frame("D", None, [(11, "id%d" % rnd.randrange(1000)), (55, "VOD.L"), (54, 1), (38, 100), (40, 2), (44, "1.5")])))
        elif k == "grp":
            fr.append(("a", peer.frame("D", None, [(11, "g%d" % rnd.randrange(1000)), (453, 2), (448, "p1"), (447, "D"), (452, 1), (802, 1), (523, "s1"), (803, 2),
                                                  (448, "p2"), (447, "D"), (452, 3), (58, "x=y 10=000 9=5")])))
        elif k == "big":
            fr.append(("a", peer.frame("8", None, [(11, "b%d" % rnd.randrange(1000)), (58, "T" * 300), (17, "e1")])))
        elif k == "small":
            fr.append(("a", peer.frame("D", None, [(11, "s")])))
        elif k == "jfail":
            # a valid application frame whose journal row is refused (the harness makes persist_msg fail for it, as a full disk would): it
            # was handed to the application, it is counted, the failure is logged - and the frames behind it in the same read are handled
            fr.append(("j", peer.frame("D", None, [(11, "jfail%d" % rnd.randrange(1000)), (55, "X")])))
        elif k == "bad34":
            # well framed, but the session layer cannot read its header (MsgSeqNum is not a number): the session ends there (since repo fix
            # for C11's "unreadable header" finding; before it: logged and dropped), whatever the chunking
            fr.append(("x", peer.frame("D", "abc", [(11, "bad%d" % rnd.randrange(1000)), (55, "X")])))
        elif k == "zpad":
            # BodyLength written with leading zeros (a legal FIX int, some engines pad it to a fixed width): the frame is as long as
            # its bytes say, not as long as a re-rendered "9=<n>" would make it
            fb = peer.frame("D", None, [(11, "z%d" % rnd.randrange(1000)), (55, "PAD")])
            head, rest = fb.split(b"\x01", 1)
            bl, rest = rest.split(b"\x01", 1)
            body = rest[:rest.rindex(b"10=")]
            f0 = head + b"\x01" + b"9=" + bl[2:].rjust(rnd.choice([4, 6, 9]), b"0") + b"\x01" + body
            fr.append(("a", f0 + b"10=%03d\x01" % (sum(f0) % 256)))
        elif k == "mk":
            # a valid frame whose Text quotes a BeginString: the frame-start text inside a value is not a frame start
            fr.append(("a", peer.frame("j", None, [(45, 7), (58, "Unsupported BeginString 8=FIX.4.2 (expected 8=FIX.4.4)"), (380, 0)])))
    return fr


def garbage(rnd, style):
    n = rnd.randrange(1, 12)
    if style == "plain":
        al = b"abcxyz \r\n\x00\xff"
    else:
        al = b"ab\x01=0915 \n"
    if style == "eights":
        # junk that looks like pieces of FIX: stray CheckSum fields, digits 8, beginnings of the frame-start text (never all of it)
        al = b"8=FIX10\x01 2"
    while True:
        g = bytes(rnd.choice(al) for _ in range(n))
        if b"8=FIX." not in g:
            return g


async def run_partition(acc, clock, stream, frames, cuts, garb_regions, cid, sid, max_read=None):
    """Feed `stream` cut at `cuts` to a fresh logged-on endpoint; judge against `frames` (list of (kind, bytes))."""
    from asyncfix import Journaler
    from asyncfix.connection import ConnectionRole, ConnectionState
    from asyncfix.message import MessageDirection as D
    from vf.sim import endpoint as E
    from vf.sim.net import settle, SpinAbort
    import sys
    j = Journaler()
    ep = E.new_endpoint("generic", "ME", "PEER", j, name="ME")
    E.attach(ep, clock, ConnectionRole.ACCEPTOR)
    E.start_reader(ep)
    if any(k == "j" for k, _ in frames):
        import sqlite3
        real_persist = j.persist_msg

        def persist(msg, session, direction):
            if b"\x0111=jfail" in msg:
                raise sqlite3.OperationalError("database or disk is full")
            return real_persist(msg, session, direction)
        j.persist_msg = persist
    logon = fixwire.msg("A", 1, "PEER", "ME", [(98, 0), (108, 30)])
    w = {"stream_id": sid, "cuts": list(cuts), "stream_len": len(stream), "garbage": garb_regions,
         "frame_starts": [], "stream": fixwire.show(stream)[:600]}
    off = 0
    # frame start offsets inside stream
    pos = 0
    starts = []
    for _, fb in frames:
        k = stream.find(fb, pos)
        starts.append(k)
        pos = k + len(fb)
    w["frame_starts"] = starts
    # reads are capped at 4096 bytes by the library: those boundaries are cuts too
    eff = set(cuts)
    bb = [0] + sorted(cuts) + [len(stream)]
    for a, z in zip(bb, bb[1:]):
        p = a + 4096
        while p < z:
            eff.add(p)
            p += 4096
    cuts = tuple(sorted(eff))
    w["effective_cuts"] = list(cuts) if len(cuts) < 60 else len(cuts)

    def classify(default):
        inside = any(m < c < m + 6 for c in cuts for m in starts)
        if inside:
            return "cut-inside-beginstring-marker"
        ends = {st: st + len(fb) for st, (_, fb) in zip(starts, frames)}
        for (g0, g1) in garb_regions:
            # is there a read that contains both the end of the preceding frame and garbage bytes?
            if g0 > 0 and g0 not in cuts:
                return "garbage-after-frame-in-same-buffer"
        # (repaired in the repository by ed230f5; judged after the listed mechanisms so that a history that also has their geometry is
        # attributed to them, and one that has only this geometry is reported under this key if the defect ever returns)
        for (g0, g1) in garb_regions:
            if g1 in ends:
                a = max([0] + [c for c in cuts if c <= g1])
                junk = g1 - max(a, g0)
                if junk > 0 and any(g1 < c < ends[g1] and ends[g1] - c <= junk for c in cuts):
                    return "junk-before-partial-frame-judged-complete"
        return default

    try:
        ep.vf_reader.feed(logon)
        await settle()
        if ep.connection_state != ConnectionState.ACTIVE:
            acc.inconclusive("C03: logon did not reach ACTIVE")
            return
        tap0 = len(ep.vf_tap)
        b = [0] + sorted(cuts) + [len(stream)]
        for a, z in zip(b, b[1:]):
            if z > a:
                ep.vf_reader.feed(stream[a:z])
                await settle()
        fail = E.task_failure(ep)
        if fail is not None or ep.vf_read_task.done():
            acc.violation(classify("reader-task-died"), f"{fail!r}", w, cid)
            return
        # a frame whose header the session layer cannot read ("x") ends the session there, like a frame without MsgSeqNum: what was
        # framed before it is handled, nothing behind it - under every chunking
        ends_at = next((i for i, (k, _) in enumerate(frames) if k == "x"), None)
        all_frames = frames
        if ends_at is not None:
            frames = frames[:ends_at]
        exp_app = [fixwire.get(fixwire.parse(fb), 11) for k, fb in frames if k in ("a", "j")]
        got_app = [r[1] for r in ep.rx]
        acc.oracle("delivery")
        if got_app != exp_app:
            w["delivered"] = got_app
            w["expected"] = exp_app
            w["swallowed"] = ep.vf_log.exceptions[:3]
            acc.violation(classify("delivery-differs"), f"delivered {got_app} expected {exp_app}", w, cid)
            return
        acc.oracle("journal")
        rows = j.recover_messages(ep._session, D.INBOUND, 0, sys.maxsize)
        exp_rows = [logon] + [fb for k_, fb in frames if k_ not in ("x", "j")]
        if rows != exp_rows:
            acc.violation(classify("inbound-journal-differs"), f"{len(rows)} rows vs {len(exp_rows)} frames sent", w, cid)
            return
        acc.oracle("state-and-tap")
        if ends_at is not None:
            if ep.connection_state > ConnectionState.DISCONNECTED_BROKEN_CONN:
                acc.violation(classify("unreadable-header-session-goes-on"), ep.connection_state.name, w, cid)
                return
        elif ep.connection_state != ConnectionState.ACTIVE:
            acc.violation(classify("not-active-afterwards"), ep.connection_state.name, w, cid)
            return
        bad = [f for f in E.parse_tap(ep.vf_tap.frames(tap0)) if isinstance(f, Exception) or fixwire.get(f, 35) in ("2", "5", "4")]
        if ends_at is not None and len(bad) == 1 and not isinstance(bad[0], Exception) and fixwire.get(bad[0], 35) == "5":
            bad = []        # the Logout that states why the session was ended at the unreadable frame
        if bad:
            acc.violation(classify("resend-or-logout-emitted"), f"{len(bad)} recovery frames on the tap", w, cid)
            return
        ncount = sum(1 for k_, _ in frames if k_ != "x")
        if ep._session.next_num_in != 2 + ncount:
            acc.violation(classify("inbound-counter"), f"next_num_in={ep._session.next_num_in} expected {2 + ncount}", w, cid)
        if ep._msg_buffer not in (b"",) and not garb_regions:
            acc.violation(classify("residue-in-buffer"), f"{len(ep._msg_buffer)} bytes left in the receive buffer", w, cid)
    except SpinAbort as e:
        acc.violation(classify("reader-spins"), str(e), w, cid)
    finally:
        E.stop_tasks(ep)


async def run_client_connect(acc, clock, cut, wait, cid):
    """The initiator's own connect(): the application awaits connect(), its on_connect() sends the Logon and (wait > 0) then waits for
    something; the acceptor's Logon and first application frames arrive meanwhile, cut at `cut` bytes into the first application frame."""
    import asyncio
    from asyncfix import FIXMessage, Journaler
    from asyncfix.connection import ConnectionState
    from vf.sim import endpoint as E
    from vf.sim.net import MemReader, MemWriter, Tap, install_open_connection, settle, advance, SpinAbort
    j = Journaler()
    ep = E.new_endpoint("client", "ME", "PEER", j, name="ME")
    reader = MemReader("ME.reader")
    tap = Tap(clock, "ME")
    writer = MemWriter(tap, None, "ME.writer")
    writer.on_close = reader.feed_eof
    ep.vf_tap, ep.vf_reader, ep.vf_writer = tap, reader, writer
    undo = install_open_connection(lambda host, port: (reader, writer))

    async def on_connect():
        await ep.send_msg(FIXMessage("A", {98: 0, 108: 30}))
        if wait:
            await asyncio.sleep(wait)       # e.g. waiting for the session to come up before returning to the caller
    ep.vf_hooks["on_connect"] = on_connect
    peer = E.Peer("PEER", "ME")
    logon = peer.logon()
    frames = [peer.frame("D", None, [(11, f"cc{i}"), (55, "X"), (58, "t" * 40)]) for i in range(3)]
    w = {"cut_into_first_application_frame": cut, "on_connect_waits": wait}
    task = asyncio.get_running_loop().create_task(ep.connect())
    try:
        await settle()
        reader.feed(logon + frames[0][:cut])
        await settle()
        await advance(wait + 0.2)
        reader.feed(frames[0][cut:] + frames[1] + frames[2])
        await settle()
        acc.oracle("delivery")
        got = [r[1] for r in ep.rx]
        w["delivered"] = got
        w["tap"] = [fixwire.show(b)[:80] for b in tap.frames(0)]
        w["state"] = ep.connection_state.name
        if got != ["cc0", "cc1", "cc2"]:
            acc.violation("client-connect:delivery-differs", f"first connection of an initiator, read boundary {cut} bytes into the first application frame, on_connect() "
                          f"{'waits ' + str(wait) + ' s' if wait else 'returns at once'}: delivered {got}", w, cid)
            return
        acc.oracle("state-and-tap")
        kinds = [fixwire.get(f, 35) for f in E.parse_tap(tap.frames(0)) if not isinstance(f, Exception)]
        if ep.connection_state != ConnectionState.ACTIVE or any(k in ("2", "4", "5") for k in kinds):
            acc.violation("client-connect:recovery-traffic", f"state {ep.connection_state.name}, frames written {kinds}", w, cid)
    except SpinAbort as e:
        acc.violation("reader-spins", str(e), w, cid)
    finally:
        undo()
        if not task.done():
            task.cancel()
        E.stop_tasks(ep)


def run_shard(spec, acc):
    from asyncfix.codec import Codec
    from asyncfix.connection import AsyncFIXConnection as C
    from vf.core.reach import Reach
    from vf.sim import vclock, endpoint as E
    acc.reach_obj = Reach({"socket_read_task": C.socket_read_task, "Codec.decode": Codec.decode}).start()
    shard, nsh = spec["shard"], spec["nshards"]

    async def go(clock):
        # ---- exhaustive 1-cut / 2-cut on short streams
        srnd = random.Random(f"{spec['seed']}:C03:streams")
        combos = [["hb", "small"], ["small", "tr"], ["nos"], ["small", "hb", "small"], ["tr", "small"], ["hb", "hb", "small"],
                  ["grp"], ["nos", "hb"], ["small", "small", "small"], ["hb", "nos"], ["grp", "small"], ["tr", "nos"]]
        combos[2:2] = [["mk", "small"]]       # a value that contains the frame-start text, under every 1-/2-cut partition
        combos[1:1] = [["zpad", "small"]]     # a zero-padded BodyLength, under every 1-/2-cut partition
        combos[2:2] = [["jfail", "small"]]    # a frame whose journal row is refused, under every 1-/2-cut partition
        idx = 0
        for si in range(spec["nstreams"]):
            peer = E.Peer("PEER", "ME")
            peer.next_out = 2
            frames = make_frames(srnd, peer, combos[si % len(combos)])
            stream = b"".join(fb for _, fb in frames)
            n = len(stream)
            if si == 0 and shard == 0:
                acc.sample({"stream": fixwire.show(stream)[:300], "len": n, "partitions": "all 1-cut and 2-cut" if n <= spec["maxlen2"] else "all 1-cut"}, 2)
            cutsets = [(c,) for c in range(1, n)]
            if n <= spec["maxlen2"]:
                cutsets += [(a, b) for a in range(1, n) for b in range(a + 1, n)]
            cutsets.append(tuple(range(1, n)))  # all 1-byte reads
            for cuts in cutsets:
                idx += 1
                if idx % nsh != shard:
                    continue
                cid = f"ex:{si}:{','.join(map(str, cuts)) if len(cuts) < 5 else 'bytes'}"
                if not acc.want(cid):
                    continue
                acc.case_disjoint(nontrivial=True)
                await run_partition(acc, clock, stream, frames, cuts, [], cid, f"ex{si}")
        # ---- exhaustive 1-cut / 2-cut partitions of streams with junk right in front of / between frames
        JUNK = [b"10=128\x01", b"x8", b"8=F", b"8=FIX", b"\x018", b"=8=\x01"]
        for ji, junk in enumerate(JUNK):
            peer = E.Peer("PEER", "ME")
            peer.next_out = 2
            frames = make_frames(srnd, peer, ["small", "hb"] if ji % 2 else ["hb", "small"])
            parts, garb, pos = [], [], 0
            for i, (_, fb) in enumerate(frames):
                garb.append((pos, pos + len(junk)))
                parts.append(junk)
                pos += len(junk)
                parts.append(fb)
                pos += len(fb)
            stream = b"".join(parts)
            n = len(stream)
            cutsets = [(c,) for c in range(1, n)] + [(a, b) for a in range(1, n) for b in range(a + 1, min(n, a + 40))] + [tuple(range(1, n))]
            for cuts in cutsets:
                idx += 1
                if idx % nsh != shard:
                    continue
                cid = f"exj:{ji}:{','.join(map(str, cuts)) if len(cuts) < 5 else 'bytes'}"
                if not acc.want(cid):
                    continue
                acc.case_disjoint(nontrivial=True)
                acc.add("exhaustive_partitions_with_junk")
                await run_partition(acc, clock, stream, frames, cuts, garb, cid, f"exj{ji}")
        acc.add("exhaustive_partitions", 0)
        # ---- the initiator's own connect() with an on_connect() that returns at once / waits, read boundary inside the first frame
        ci = 0
        for wait in (0, 0.3, 2.0):
            for cut in (1, 5, 9, 20, 37, 60, 86, 100):
                ci += 1
                cid = f"client-connect:{wait}:{cut}"
                if ci % nsh != shard or not acc.want(cid):
                    continue
                await run_client_connect(acc, clock, cut, wait, cid)
                acc.case_disjoint(nontrivial=True)
                acc.add("client_connects_with_a_read_boundary_inside_the_first_frame")
        # ---- streams of exactly k * 4096 bytes: the library's read(4096) comes back full and nothing follows
        for ki, total in enumerate((4096, 8192, 12288, 4096 * 5)):
            for vi, cutstyle in enumerate(("one", "at-4096", "random")):
                cid = f"full-read:{total}:{cutstyle}"
                if (ki * 3 + vi) % nsh != shard or not acc.want(cid):
                    continue
                rnd = random.Random(f"{spec['seed']}:C03:full:{total}:{cutstyle}")
                peer = E.Peer("PEER", "ME")
                peer.next_out = 2
                frames = make_frames(rnd, peer, [rnd.choice(["nos", "grp", "big", "small"]) for _ in range(rnd.randrange(2, 6))])
                base = sum(len(fb) for _, fb in frames)
                while total - base > 1500:
                    frames += make_frames(rnd, peer, ["big"])
                    base = sum(len(fb) for _, fb in frames)
                need = total - base
                n0 = peer.next_out
                pad = None
                for x in range(max(0, need - 120), need):
                    peer.next_out = n0
                    fb = peer.frame("8", None, [(11, "pad"), (58, "P" * x), (17, "e9")])
                    if len(fb) == need:
                        pad = fb
                        break
                if pad is None:
                    acc.add("full_read_stream_not_built")
                    continue
                frames.append(("a", pad))
                stream = b"".join(fb for _, fb in frames)
                assert len(stream) == total
                if cutstyle == "one":
                    cuts = ()
                elif cutstyle == "at-4096":
                    cuts = tuple(range(4096, total, 4096))
                else:
                    cuts = tuple(sorted(set(rnd.randrange(1, total) for _ in range(4))))
                acc.case((stream, cuts), nontrivial=True)
                acc.add("streams_ending_on_a_full_4096_byte_read")
                await run_partition(acc, clock, stream, frames, cuts, [], cid, f"full{total}{cutstyle}")
        # ---- random multi-cut partitions, bigger streams, garbage
        for c in range(spec["nrand"]):
            cid = f"rand:{shard}:{c}"
            if not acc.want(cid):
                continue
            rnd = random.Random(f"{spec['seed']}:C03:{shard}:{c}")
            peer = E.Peer("PEER", "ME")
            peer.next_out = 2
            kinds = [rnd.choice(["hb", "tr", "nos", "grp", "big", "small", "mk", "zpad"]) for _ in range(rnd.randrange(1, 5))]
            if "zpad" in kinds:
                acc.add("streams_with_a_zero_padded_bodylength")
            if rnd.random() < 0.25:
                kinds.insert(rnd.randrange(len(kinds) + 1), rnd.choice(["bad34", "jfail", "jfail"]))
                kinds.append(rnd.choice(["nos", "small"]))
                acc.add("streams_with_a_frame_the_session_layer_chokes_on")
            if rnd.random() < 0.1:
                kinds += ["big"] * rnd.randrange(8, 12)   # > 4096 bytes: read(4096) splits
            frames = make_frames(rnd, peer, kinds)
            parts = []
            garb = []
            pos = 0
            gmode = rnd.choice(["none", "none", "before", "between", "both"])
            for i, (_, fb) in enumerate(frames):
                if (i == 0 and gmode in ("before", "both")) or (i > 0 and gmode in ("between", "both") and rnd.random() < 0.6):
                    g = garbage(rnd, rnd.choice(["plain", "fixish", "eights", "eights"]))
                    garb.append((pos, pos + len(g)))
                    parts.append(g)
                    pos += len(g)
                parts.append(fb)
                pos += len(fb)
            stream = b"".join(parts)
            n = len(stream)
            style = rnd.choice(["few", "many", "bytes", "one"])
            if style == "one":
                cuts = ()
            elif style == "bytes" and n < 700:
                cuts = tuple(range(1, n))
            else:
                k = rnd.randrange(1, 6) if style == "few" else rnd.randrange(6, 40)
                cuts = tuple(sorted(set(rnd.randrange(1, n) for _ in range(k)))) if n > 1 else ()
            acc.case((stream, cuts), nontrivial=bool(cuts))
            await run_partition(acc, clock, stream, frames, cuts, garb, cid, f"rand{shard}:{c}")
            if garb:
                acc.add("cases_with_garbage")
            if n > 4096:
                acc.add("cases_over_4096_bytes")
    vclock.run(go)
    acc.reach_obj.stop()
