"""C04  Inbound application messages are delivered in order, once, never past a gap (step monitor)."""
import itertools
import random

from vf.ref import fixwire

META = {
    "level": "exploration",
    "rule": ("a real logged-on connection (both roles) is fed one frame at a time by a scripted adversarial peer; alphabet relative to the "
             "connection's own expected number E: type in {app, Heartbeat, TestRequest, ResendRequest, GapFill, Reset} x "
             "MsgSeqNum in {E-1,E,E+1,E+4} x PossDupFlag x NewSeqNo in {s+1,s+3,E-1}; start states ACTIVE, RESENDREQ_AWAITING via a real gap, ACTIVE with an application handler that raises, ACTIVE with a journal that refuses every second inbound write, "
             "and after a too-high Logon; exhaustive over all histories of length 3 (quick) / 4 (thorough) of a 24-symbol alphabet plus random "
             "histories of length 6-14 over 40 symbols; after every frame the monitor checks R1 delivery only at E and once, R2 E moves by +1 / "
             "to an honoured forward NewSeqNo / never backwards / a delivered number is consumed, R3 exactly one ResendRequest(BeginSeqNo=E) "
             "per gap, R4 delivered numbers strictly increase; a history is judged up to its first violation; distinct = the symbol "
             "sequence + start; non-trivial = history contains a gap or a SequenceReset"),
    "assumptions": ["frames after which the connection legitimately drops are C11's subject", "Reset-mode SequenceReset: rule R3 unspecified",
                    "inbound ResendRequests (any number since repo fix 7af4ef7) are serviced as a side activity; C06 judges the replies"],
}
REQUIRED_ORACLES = ["R1", "R2", "R3", "R4"]
NSHARDS = 16

# symbol = (type, rel, possdup, newrel)   newrel: "s+1" | "s+3" | "E-1"
A24 = ([("app", r, pd, None) for r in (-1, 0, 1, 4) for pd in ("N", "Y")] +
       [("hb", r, "N", None) for r in (0, 1)] + [("tr", r, "N", None) for r in (0, 1)] +
       [("gf", r, "Y", n) for r in (-1, 0, 1) for n in ("s+1", "s+3")] +
       [("rs", r, "N", n) for r in (0, 1) for n in ("s+3", "E-1")] +
       [("rr", 0, "N", None), ("rr", 1, "N", None), ("rrx", 0, "N", None)])
A40 = A24 + ([("hb", r, pd, None) for r in (-1, 4) for pd in ("N", "Y")] + [("tr", -1, "N", None), ("tr", 4, "N", None)] +
             [("gf", r, "N", n) for r in (0, 1) for n in ("s+1", "s+3")] + [("gf", 0, "Y", "E-1"), ("gf", 4, "Y", "s+3")] +
             [("rs", -1, "N", "s+3"), ("rs", 4, "N", "s+3"), ("rs", 0, "Y", "s+1"), ("app", 2, "N", None)] +
             # a Logon in the middle of the session (numbered like any other frame) and a SequenceReset that lacks NewSeqNo
             [("lg", r, "N", None) for r in (0, 1, 4)] + [("rsn", r, "N", None) for r in (-1, 0, 4)])
STARTS = ["active", "awaiting", "active-handler-raises", "active-journal-write-fails", "logon-too-high", "active-handler-disconnects"]


def plan(tier, seed):
    q = tier == "quick"
    return [{"shard": i, "nshards": NSHARDS, "exh_len": 3 if q else 4, "nrand": 150 if q else 6000} for i in range(NSHARDS)]


def sym_str(s):
    t, r, pd, n = s
    return f"{t}{'%+d' % r}{'/dup' if pd == 'Y' else ''}{('>' + n) if n else ''}"


async def run_history(acc, clock, role, start, syms, cid):
    from asyncfix import FIXMessage, Journaler
    from asyncfix.connection import ConnectionRole, ConnectionState
    from vf.sim import endpoint as E
    from vf.sim.net import settle, SpinAbort
    j = Journaler()
    ep = E.new_endpoint("generic", "ME", "PEER", j, name="ME")
    E.attach(ep, clock, ConnectionRole.ACCEPTOR if role == "acceptor" else ConnectionRole.INITIATOR)
    E.start_reader(ep)
    peer = E.Peer("PEER", "ME")
    trace = [role, start]
    delivered = []
    outstanding = None       # trigger number of the ResendRequest that is still open
    rr_used = False
    nontrivial = False

    async def feed(fr):
        ep.vf_reader.feed(fr)
        await settle()

    def sess():
        return ep._session.next_num_in

    try:
        if role == "initiator":
            await ep.send_msg(FIXMessage("A", {98: 0, 108: 30}))
        if start == "active-journal-write-fails":
            # the journal refuses every second inbound write (a locked or full database): the library logs it; what was handed to
            # the application stays consumed
            import sqlite3 as _sq
            from asyncfix.message import MessageDirection as _D
            real_persist = j.persist_msg
            state_ = {"n": 0}

            def flaky(msg, session, direction, _real=real_persist):
                if direction == _D.INBOUND:
                    state_["n"] += 1
                    if state_["n"] % 2 == 0:
                        raise _sq.OperationalError("database is locked")
                return _real(msg, session, direction)
            j.persist_msg = flaky
        if start == "active-handler-raises":
            # the application's on_message raises on every message (after the harness recorded the delivery): the library logs it;
            # the message was handed over, so it must count as consumed like any other
            async def boom(msg):
                raise RuntimeError("application handler failed")
            ep.vf_hooks["on_message"] = boom
        if start == "active-handler-disconnects":
            # the application ends the session from inside on_message (end of day): the message it was handed counts as consumed, or the
            # next connection of this object asks for it again
            async def bye(msg):
                acc.add("sessions_closed_from_inside_on_message")
                await ep.disconnect(ConnectionState.DISCONNECTED_WCONN_TODAY, logout_message="end of day")
            ep.vf_hooks["on_message"] = bye
        if start == "logon-too-high":
            await feed(peer.logon(seq=4))
            if ep.connection_state != ConnectionState.RESENDREQ_AWAITING:
                acc.add("start_state_not_reached")
                return None
            outstanding = 4
        else:
            await feed(peer.logon(seq=1))
            if ep.connection_state != ConnectionState.ACTIVE:
                acc.add("start_state_not_reached")
                return None
            if start == "awaiting":
                e0 = sess()
                await feed(peer.frame("D", e0 + 2, [(11, "trigger")]))
                if ep.connection_state != ConnectionState.RESENDREQ_AWAITING:
                    acc.add("start_state_not_reached")
                    return None
                outstanding = e0 + 2
        cnt = 0
        for sym in syms:
            t, rel, pd, newrel = sym
            Eb = sess()
            state_b = ep.connection_state
            if state_b <= ConnectionState.DISCONNECTED_BROKEN_CONN:
                acc.add("histories_ended_by_disconnect")
                break
            if state_b == ConnectionState.RESENDREQ_HANDLING:
                acc.add("histories_left_domain_resend_handling")
                break
            s = Eb + rel
            if s < 1:
                trace.append(sym_str(sym) + "(skipped)")
                continue
            if t == "rr":
                # (until repo fix 7af4ef7 a second inbound ResendRequest corrupted the outbound journal and had to be kept out of C04)
                rr_used = True
            cnt += 1
            new = None
            if newrel:
                new = {"s+1": s + 1, "s+3": s + 3, "E-1": Eb - 1}[newrel]
                if new < 1:
                    trace.append(sym_str(sym) + "(skipped)")
                    continue
            ident = f"m{cnt}"
            pdup = pd == "Y"
            if t == "app":
                fr = peer.frame("D", s, [(11, ident)], possdup=pdup)
            elif t == "hb":
                fr = peer.frame("0", s, [], possdup=pdup)
            elif t == "tr":
                fr = peer.frame("1", s, [(112, ident)], possdup=pdup)
            elif t == "rr":
                fr = peer.frame("2", s, [(7, 1), (16, 0)], possdup=pdup)
            elif t == "rrx":
                # a ResendRequest for a range this side never sent (the library ignores it): it must not disturb the inbound side
                fr = peer.frame("2", s, [(7, ep._session.next_num_out + 3 + cnt % 2), (16, 0)], possdup=pdup)
            elif t == "lg":
                if role == "acceptor":
                    # what an acceptor does with a second Logon on a live session is not this property's subject (C11 judges Logons)
                    trace.append(sym_str(sym) + "(skipped)")
                    continue
                fr = peer.frame("A", s, [(98, 0), (108, 30)], possdup=pdup)
            elif t == "rsn":
                fr = peer.frame("4", s, [(123, "N")], possdup=pdup)
                nontrivial = True
            elif t == "gf":
                fr = peer.frame("4", s, [(123, "Y"), (36, new)], possdup=pdup)
                nontrivial = True
            else:
                fr = peer.frame("4", s, [(123, "N"), (36, new)], possdup=pdup)
                nontrivial = True
            if rel > 0:
                nontrivial = True
            tap0, rx0, exc0 = len(ep.vf_tap), len(ep.rx), ep.vf_log.counts.get("exception", 0)
            await feed(fr)
            Ea = sess()
            state_a = ep.connection_state
            step = {"sym": sym_str(sym), "s": s, "E_before": Eb, "E_after": Ea, "new": new, "state_before": state_b.name, "state_after": state_a.name,
                    "outstanding": outstanding}
            trace.append(step)
            new_rx = ep.rx[rx0:]
            new_tap = [f for f in E.parse_tap(ep.vf_tap.frames(tap0))]
            rrs = [f for f in new_tap if not isinstance(f, Exception) and fixwire.get(f, 35) == "2"]
            dropped = state_a <= ConnectionState.DISCONNECTED_BROKEN_CONN
            relc = "s<E" if s < Eb else ("s=E" if s == Eb else "s>E")
            stc = "awaiting" if state_b == ConnectionState.RESENDREQ_AWAITING else "active"
            w = {"role": role, "start": start, "trace": trace[-8:], "frame": fixwire.show(fr), "swallowed": ep.vf_log.exceptions[-2:]}

            def V(rule, detail, what):
                key = f"{rule}:{t}:{relc}:{stc}:{detail}"
                # narrow mechanism keys for the listed findings; everything else keeps the detailed key
                if rule == "R1" and t == "app" and s < Eb and stc == "awaiting" and detail == "delivered-not-at-expected" and len(new_rx) == 1:
                    key = "R1:app-below-expected-delivered-while-awaiting"
                elif rule == "R2" and t == "gf" and s != Eb and detail == "gapfill-own-number-ignored" and Ea == new and new > Eb:
                    key = "R2:gapfill-own-number-ignored"
                elif rule == "R2" and t == "rs" and detail == "expected-number-moved-backwards" and Ea == new and new < Eb:
                    key = "R2:backward-sequence-reset-honoured"
                elif rule == "R2" and t == "gf" and detail == "expected-number-moved-backwards" and Ea == new and new < Eb:
                    key = "R2:backward-gapfill-honoured"
                elif rule == "R3" and detail == "still-awaiting-after-gap-closed" and t in ("gf", "rs"):
                    key = "R3:still-awaiting-after-reset-passed-the-gap"
                acc.violation(key, what, w, cid)

            first = None
            # R1
            acc.oracle("R1")
            if len(new_rx) > 1:
                first = ("R1", "delivered-more-than-once", f"{len(new_rx)} deliveries for one frame")
            elif new_rx and (t != "app" or s != Eb):
                first = ("R1", "delivered-not-at-expected", f"on_message for {t} numbered {s} while expecting {Eb}")
            # R2
            if first is None and not dropped:
                acc.oracle("R2")
                allowed = {Eb}
                if s == Eb and t not in ("gf", "rs"):
                    allowed.add(Eb + 1)
                if t in ("gf", "rs") and new is not None and new > Eb and (t == "rs" or s == Eb):
                    allowed.add(new)
                if Ea < Eb:
                    first = ("R2", "expected-number-moved-backwards", f"E {Eb} -> {Ea}")
                elif Ea not in allowed:
                    d = "gapfill-own-number-ignored" if (t == "gf" and s != Eb and Ea == new) else "expected-number-moved-illegally"
                    first = ("R2", d, f"E {Eb} -> {Ea}, allowed {sorted(allowed)}")
                elif new_rx and Ea != Eb + 1:
                    first = ("R2", "delivered-number-not-consumed", f"delivered {s} but E stays {Ea}")
                elif t == "app" and s == Eb and not new_rx and Ea == Eb + 1:
                    first = ("R2", "in-sequence-app-message-skipped-silently", f"E {Eb} -> {Ea} without delivery")
            if first is None and dropped and new_rx and Ea != Eb + 1:
                acc.oracle("R2")
                first = ("R2", "delivered-number-not-consumed", f"delivered {s}, the connection went down inside the handler, E stays {Ea}")
            # R3
            if first is None and not dropped and not (t == "rs"):
                acc.oracle("R3")
                if rrs:
                    b = [fixwire.get(f, 7) for f in rrs]
                    if len(rrs) > 1:
                        first = ("R3", "several-resend-requests", f"{len(rrs)} ResendRequests for one frame")
                    elif s <= Eb:
                        first = ("R3", "resend-request-without-gap", f"ResendRequest although {s} <= {Eb}")
                    elif outstanding is not None:
                        first = ("R3", "second-resend-request-while-one-is-open", f"open since trigger {outstanding}")
                    elif b[0] != str(Eb):
                        first = ("R3", "resend-request-begins-elsewhere", f"BeginSeqNo={b[0]} expected {Eb}")
                elif s > Eb and outstanding is None and t != "rs":
                    first = ("R3", "gap-without-resend-request", f"{t} numbered {s} while expecting {Eb}: no ResendRequest")
            if first is None and rrs and t == "rs":
                pass  # unspecified
            # bookkeeping of the open request (monitor state)
            if rrs and outstanding is None:
                outstanding = s
            if outstanding is not None and Ea > outstanding:
                # the gap is closed: the library must be able to ask again
                if state_a == ConnectionState.RESENDREQ_AWAITING and not dropped and first is None and t != "rs":
                    acc.oracle("R3")
                    first = ("R3", "still-awaiting-after-gap-closed", f"E={Ea} passed trigger {outstanding} but state stays RESENDREQ_AWAITING")
                outstanding = None
            if first is None and t == "rs" and outstanding is not None and Ea > outstanding:
                outstanding = None
            # R4
            for r in new_rx:
                acc.oracle("R4")
                if delivered and r[0] <= delivered[-1] and first is None:
                    first = ("R4", "delivered-numbers-not-increasing", f"delivered {r[0]} after {delivered[-1]}")
                delivered.append(r[0])
            if ep.vf_log.counts.get("exception", 0) > exc0:
                acc.add("steps_with_swallowed_exception")
            if first is not None:
                V(first[0], first[1], first[2])
                break
            if dropped:
                acc.add("histories_ended_by_disconnect")
                break
        fail = E.task_failure(ep)
        if fail is not None:
            acc.violation("reader-task-died:" + type(fail).__name__, str(fail), {"trace": trace[-8:]}, cid)
    except SpinAbort as e:
        acc.violation("reader-spins", str(e), {"trace": trace[-8:]}, cid)
    finally:
        E.stop_tasks(ep)
    return trace, nontrivial


def run_shard(spec, acc):
    from asyncfix.connection import AsyncFIXConnection as C
    from asyncfix.session import FIXSession
    from vf.core.reach import Reach
    from vf.sim import vclock
    acc.reach_obj = Reach({"_validate_integrity": C._validate_integrity, "_check_seqnum_gaps": C._check_seqnum_gaps, "_process_message": C._process_message,
                           "_finalize_message": C._finalize_message, "_process_seqreset": C._process_seqreset,
                           "set_next_num_in": FIXSession.set_next_num_in}).start()
    shard, nsh = spec["shard"], spec["nshards"]

    async def go(clock):
        idx = 0
        for start in STARTS[:4] if spec["exh_len"] <= 3 else STARTS:
            for syms in itertools.product(range(len(A24)), repeat=spec["exh_len"]):
                idx += 1
                if idx % nsh != shard:
                    continue
                cid = f"ex:{start}:{'.'.join(map(str, syms))}"
                if not acc.want(cid):
                    continue
                role = "acceptor" if (idx // nsh) % 2 == 0 else "initiator"
                r = await run_history(acc, clock, role, start, [A24[i] for i in syms], cid)
                if r is None:
                    continue
                acc.case_disjoint(nontrivial=r[1])
                if idx % 5000 == shard:
                    acc.sample({"history": [x if isinstance(x, str) else x["sym"] for x in r[0]]}, 2)
        for c in range(spec["nrand"]):
            cid = f"rand:{shard}:{c}"
            if not acc.want(cid):
                continue
            rnd = random.Random(f"{spec['seed']}:C04:{shard}:{c}")
            syms = [rnd.choice(A40) for _ in range(rnd.randrange(6, 15))]
            # bias towards well-behaved traffic so that long histories survive
            syms = [s if rnd.random() < 0.6 else rnd.choice([("app", 0, "N", None), ("hb", 0, "N", None), ("app", 0, "Y", None), ("gf", 0, "Y", "s+3")]) for s in syms]
            r = await run_history(acc, clock, rnd.choice(["acceptor", "initiator"]), rnd.choice(STARTS), syms, cid)
            if r is None:
                continue
            acc.case((tuple(syms), r[0][0], r[0][1]), nontrivial=r[1])
            acc.sample({"random_history": [x if isinstance(x, str) else x["sym"] for x in r[0]]}, 3)
    vclock.run(go)
    acc.reach_obj.stop()
