"""C05  Outbound messages are numbered consecutively and journaled under that number (invariant at quiescent points)."""
import random
import sys

from vf.ref import fixwire

META = {
    "level": "exploration",
    "rule": ("random histories of 10-40 steps on a real connection (both roles, starting counters 1, 2, 10^6 or loaded from a pre-populated "
             "journal): send_msg of application / Heartbeat / Logon / Logout / TestRequest / ResendRequest messages and send_test_req in "
             "every state the API reaches (never connected, NETWORK_CONN_ESTABLISHED, LOGON_INITIAL_SENT, ACTIVE, RESENDREQ_AWAITING, "
             "disconnected), interleaved with inbound frames that themselves cause sends (Logon reply, TestRequest -> Heartbeat, gap -> "
             "ResendRequest, wrong Heartbeat id -> Logout, too-low number -> Logout); after every step: every new tapped frame carries the next "
             "number, the journal returns exactly the tapped bytes under that number, stored next-out == last+1 == live counter, a refused "
             "send changes nothing; distinct = hash of the step trace; non-trivial = history with >= 1 refused and >= 3 accepted sends"),
    "assumptions": ["transport faults (C07/C09) are excluded from these histories; inbound ResendRequests are part of them since repo fix 7af4ef7 (their replies are judged by C06)"],
}
REQUIRED_ORACLES = ["numbering", "journal-readback", "stored-counter", "refused-send-unchanged", "bystander-session-untouched", "stored-counter-committed"]
REQUIRED_COUNTERS = ["overlapping_sends_cut_by_a_disconnect", "sends_while_another_task_was_closing_the_connection", "journal_commits_failed",
                     "logons_with_a_suspended_state_callback_and_connection_lost", "logouts_sent_while_the_logon_was_in_the_state_callback"]
NSHARDS = 16
N = {"quick": 250, "thorough": 5000}


def plan(tier, seed):
    return [{"shard": i, "n": N[tier]} for i in range(NSHARDS)]


async def history(acc, clock, rnd, cid):
    from asyncfix import FIXMessage, Journaler
    from asyncfix.connection import ConnectionRole, ConnectionState
    from asyncfix.errors import FIXConnectionError
    from asyncfix.message import MessageDirection as D
    from vf.sim import endpoint as E
    from vf.sim.net import settle, advance, SpinAbort
    role = rnd.choice(["acceptor", "initiator"])
    # some histories keep the journal in a file, so that a SECOND connection can read what is really committed
    jfile = None
    if rnd.random() < 0.35:
        import os
        jfile = f"/dev/shm/vf_c05_{os.getpid()}.db"
        for x in (jfile, jfile + "-journal"):
            if os.path.exists(x):
                os.unlink(x)
    j = Journaler(jfile)

    def committed_next_out():
        """next outbound number as a different connection (= another process, or this one after a restart) sees it"""
        import sqlite3
        c2 = sqlite3.connect(jfile, timeout=0)
        try:
            row = c2.execute("SELECT outboundSeqNo FROM session WHERE targetCompId = ? AND senderCompId = ?", ("PEER", "ME")).fetchone()
            return None if row is None else row[0] + 1
        except sqlite3.OperationalError:
            return "locked"
        finally:
            c2.close()
    n0 = rnd.choice([1, 1, 2, 10 ** 6, "prepop"])
    if n0 == "prepop":
        s0 = j.create_or_load("PEER", "ME")
        k = rnd.randrange(1, 6)
        for q in range(1, k + 1):
            j.persist_msg(fixwire.msg("D", q, "ME", "PEER", [(11, f"old{q}")]), s0, D.OUTBOUND)
        n0 = k + 1
    elif n0 != 1:
        s0 = j.create_or_load("PEER", "ME")
        j.set_seq_num(s0, next_num_out=n0, next_num_in=1)
        j.conn.commit()
    # a second session in the same journal file (another connection of the same process): nothing this connection does may touch it
    by = j.create_or_load("OTHER", "ME2")
    for q in range(1, 8):
        j.persist_msg(fixwire.msg("D", q, "ME2", "OTHER", [(11, f"by-out{q}")]), by, D.OUTBOUND)
        j.persist_msg(fixwire.msg("8", q, "OTHER", "ME2", [(11, f"by-in{q}")]), by, D.INBOUND)

    def bystander():
        b = j.create_or_load("OTHER", "ME2")
        return (b.next_num_out, b.next_num_in, j.recover_messages(b, D.OUTBOUND, 0, sys.maxsize), j.recover_messages(b, D.INBOUND, 0, sys.maxsize))
    by0 = bystander()
    ep = E.new_endpoint("generic", "ME", "PEER", j, hb=30, name="ME")
    stored0 = j.create_or_load("PEER", "ME").next_num_out
    exp_next = stored0
    trace = [role, f"n0={n0}"]
    w = {"trace": trace}
    refused = accepted = 0
    skipped = set()
    peer = E.Peer("PEER", "ME")
    connected = False

    def unrepresentable():
        dupframe = fixwire.msg("D", 7, "PEER", "ME", [(11, "relay"), (20002, "2"), (20003, "a"), (20004, "b"), (20003, "c"), (20004, "d")])
        dm, _, _ = ep._codec.decode(dupframe)
        for t_ in ("8", "9", "35", "10", "52", "49", "56", "34"):
            if t_ in dm:
                del dm[t_]
        return dm

    def snapshot():
        return (len(ep.vf_tap) if hasattr(ep, "vf_tap") else 0, ep._session.next_num_out, j.create_or_load("PEER", "ME").next_num_out,
                j.recover_messages(ep._session, D.OUTBOUND, 0, sys.maxsize))

    def V(key, what):
        acc.violation(key, what, {"trace": trace[-14:], "role": role, "swallowed": ep.vf_log.exceptions[-2:]}, cid)

    def check_new_frames(tap0):
        nonlocal exp_next
        ok = True
        for fb in ep.vf_tap.frames(tap0):
            try:
                f = fixwire.parse(fb)
            except fixwire.FrameError as e:
                if any(b > 127 for b in fb):
                    # BodyLength / CheckSum of a frame with non-ASCII text are C02's listed finding (counted in characters): here only
                    # the numbering and the journal copy of that frame are judged, from a lenient split
                    f = [tuple(x.decode("latin-1").split("=", 1)) for x in fb.split(b"\x01") if b"=" in x]
                    acc.add("frames_with_non_ascii_text_judged_from_a_lenient_split")
                else:
                    V("tapped-frame-unparseable", str(e))
                    return False
            if fixwire.get(f, 43) == "Y" or fixwire.get(f, 35) == "4":
                continue
            acc.oracle("numbering")
            n = int(fixwire.get(f, 34))
            if n != exp_next:
                V("numbering:not-consecutive", f"new frame carries {n}, expected {exp_next} :: {fixwire.show(fb)[:160]}")
                return False
            acc.oracle("journal-readback")
            row = j.recover_messages(ep._session, D.OUTBOUND, n, n)
            if row != [fb]:
                V("journal:row-differs-from-wire", f"number {n}: journal has {len(row)} row(s) {[fixwire.show(r)[:80] for r in row]} wire {fixwire.show(fb)[:80]}")
                return False
            exp_next = n + 1
        # numbers the application jumped over were never used: the journal has no row for them
        if skipped:
            have = {j.find_seq_no(r) for r in j.recover_messages(ep._session, D.OUTBOUND, 0, sys.maxsize)}
            if have & skipped:
                V("journal:row-under-a-number-that-was-skipped", f"rows under {sorted(have & skipped)[:5]}: numbers the application's SequenceReset jumped over")
                return False
        acc.oracle("bystander-session-untouched")
        if bystander() != by0:
            b1 = bystander()
            V("other-session-in-same-journal-changed", f"counters {by0[:2]} -> {b1[:2]}, outbound rows {len(by0[2])} -> {len(b1[2])}, inbound rows {len(by0[3])} -> {len(b1[3])}")
            return False
        acc.oracle("stored-counter")
        live = ep._session.next_num_out
        stored = j.create_or_load("PEER", "ME").next_num_out
        if not (live == stored == exp_next):
            V("counter:stored-live-last+1-disagree", f"live={live} stored={stored} last+1={exp_next}")
            return False
        if jfile is not None:
            acc.oracle("stored-counter-committed")
            cm = committed_next_out()
            if cm == "locked":
                acc.add("committed_counter_reads_skipped_locked")
            elif cm is not None and cm != exp_next:
                V("counter:committed-value-lags", f"the writing connection reports next-out {stored}, a second connection on the journal file reads {cm} (the update is not committed)")
                return False
        return ok

    try:
        nsteps = rnd.randrange(10, 41)
        for step in range(nsteps):
            st = ep.connection_state
            acts = ["send_app", "send_app", "send_app_latin1", "send_app_stale34", "send_app_dupflag_n", "send_hb", "send_tr", "send_test_req", "send_rr", "send_logon", "send_logout",
                    "send_seqreset", "send_seqreset_renumber", "send_unrepresentable", "send_unencodable_text", "send_journal_refuses", "send_journal_commit_fails"]
            if not connected:
                acts += ["attach"] * 6 + (["attach_lost_in_callback"] if role == "initiator" else [])
            else:
                acts += ["in_logon", "in_testreq", "in_gapfill", "in_resendreq", "in_gap", "in_app", "in_app", "in_badhb", "in_toolow", "in_logout", "disconnect",
                         "overlap_disconnect", "closing_send"]
            a = rnd.choice(acts)
            before = snapshot()
            tap0 = before[0]
            trace.append(f"{a}@{st.name}")
            if a == "attach":
                if hasattr(ep, "vf_tap"):
                    keep = ep.vf_tap
                E.attach(ep, clock, ConnectionRole.ACCEPTOR if role == "acceptor" else ConnectionRole.INITIATOR)
                if not getattr(ep, "vf_read_task", None) or ep.vf_read_task.done():
                    E.start_reader(ep)
                else:
                    await advance(1.1)   # the parked reader task polls for a new socket once per second
                peer = E.Peer("PEER", "ME")
                peer.next_out = ep._session.next_num_in
                connected = True
                if rnd.random() < 0.7:
                    # proper handshake so that most histories spend their time in a logged-on session
                    trace[-1] += "+handshake"
                    try:
                        if role == "initiator":
                            await ep.send_msg(FIXMessage("A", {98: 0, 108: 30}))
                        ep.vf_reader.feed(peer.logon())
                        await settle()
                    except Exception as e:
                        V(f"send-raised:{type(e).__name__}", f"handshake: {e!r}")
                        return trace, refused, accepted
                    if not check_new_frames(tap0):
                        return trace, refused, accepted
                continue
            if a == "attach_lost_in_callback":
                # the initiator's first Logon is inside the application's on_state_change(LOGON_INITIAL_SENT) when the peer hangs up (a
                # server that refuses a client does exactly that): the send is refused because of the connection state - no number, no row
                import asyncio
                E.attach(ep, clock, ConnectionRole.INITIATOR)
                if not getattr(ep, "vf_read_task", None) or ep.vf_read_task.done():
                    E.start_reader(ep)
                else:
                    await advance(1.1)
                gate = asyncio.Event()
                entered = []

                async def slow_cb(st_):
                    if st_ == ConnectionState.LOGON_INITIAL_SENT:
                        entered.append(1)
                        await gate.wait()
                ep.vf_hooks["on_state_change"] = slow_cb
                before = snapshot()
                tap0 = before[0]
                out = []

                async def snd():
                    try:
                        await ep.send_msg(FIXMessage("A", {98: 0, 108: 30}))
                        out.append("ok")
                    except FIXConnectionError as e:
                        out.append(("refused", str(e)))
                    except Exception as e:
                        out.append(("raised", repr(e)))
                tl = asyncio.get_running_loop().create_task(snd())
                await settle()
                lost = rnd.random() < 0.6
                if lost and entered:
                    ep.vf_reader.feed_eof()
                    await settle()
                elif entered and rnd.random() < 0.6:
                    # another task of the application gives up meanwhile and sends the Logout that this state allows: whichever of the two
                    # takes its number first is also written first
                    try:
                        await ep.send_msg(FIXMessage("5", {58: "changed my mind"}))
                        accepted += 1
                        trace[-1] += ":logout-meanwhile-ok"
                        acc.add("logouts_sent_while_the_logon_was_in_the_state_callback")
                    except FIXConnectionError:
                        refused += 1
                        trace[-1] += ":logout-meanwhile-refused"
                    except Exception as e:
                        V(f"send-raised:{type(e).__name__}", f"Logout while the first Logon is inside on_state_change: {e!r}")
                        return trace, refused, accepted
                gate.set()
                await settle()
                ep.vf_hooks.pop("on_state_change", None)
                if not tl.done():
                    tl.cancel()
                    V("send-never-returned", "Logon sent from a connection lost during on_state_change")
                    return trace, refused, accepted
                trace[-1] += f":{'lost' if lost else 'kept'}:{out[0] if out[0] == 'ok' else out[0][0]}"
                if entered:
                    acc.add("logons_with_a_suspended_state_callback" + ("_and_connection_lost" if lost else ""))
                if out[0] == "ok":
                    accepted += 1
                    connected = ep.connection_state > ConnectionState.DISCONNECTED_BROKEN_CONN
                    peer = E.Peer("PEER", "ME")
                    peer.next_out = ep._session.next_num_in
                elif out[0][0] == "refused":
                    refused += 1
                    acc.oracle("refused-send-unchanged")
                    after = snapshot()
                    if after != before:
                        V("refused-send-has-effects", f"first Logon refused ({out[0][1][:60]}) after the connection was lost inside on_state_change, but live counter "
                          f"{before[1]}->{after[1]}, stored {before[2]}->{after[2]}, bytes written: {after[0] != before[0]}, journal rows changed: {after[3] != before[3]}")
                        return trace, refused, accepted
                else:
                    after = snapshot()
                    V("send-raised:" + out[0][1].split("(")[0], f"first Logon, connection lost inside on_state_change: {out[0][1]}; live counter {before[1]}->{after[1]}, "
                      f"stored {before[2]}->{after[2]}, journal rows changed: {after[3] != before[3]}, bytes written: {after[0] != before[0]}")
                    return trace, refused, accepted
                if ep.connection_state <= ConnectionState.DISCONNECTED_BROKEN_CONN:
                    connected = False
                if not check_new_frames(tap0):
                    return trace, refused, accepted
                continue
            if a.startswith("send"):
                m = {"send_app": lambda: FIXMessage("D", {11: f"c{step}", 55: "X"}),
                     # a new message that still carries a MsgSeqNum tag (e.g. a decoded message relayed to this session): a new number is allocated
                     # PossDupFlag present but 'N': an original message, numbered and journaled like any other
                     # text outside ASCII: whatever bytes go to the socket are the bytes the journal keeps under that number
                     "send_app_latin1": lambda: FIXMessage("D", {11: f"l{step}", 55: "X", 58: rnd.choice(["Zürich", "café crème", "naïve Ærø", "ÿ"])}),
                     "send_app_dupflag_n": lambda: FIXMessage("D", {11: f"n{step}", 55: "X", 43: "N"}),
                     "send_app_stale34": lambda: FIXMessage("D", {11: f"s{step}", 55: "X", 34: rnd.choice([1, 999, max(1, exp_next - 1)])}), "send_hb": lambda: FIXMessage("0"),
                     "send_tr": lambda: FIXMessage("1", {112: "manual"}), "send_rr": lambda: FIXMessage("2", {7: 1, 16: 0}),
                     "send_logon": lambda: FIXMessage("A", {98: 0, 108: 30}), "send_logout": lambda: FIXMessage("5", {58: "bye"}),
                     # the application announces a jump of its outbound numbering (Reset mode): the SequenceReset carries the next number
                     # itself, is not a new message, takes no number and is not journaled; with _renumber the application then moves the
                     # counter as the library's API provides
                     "send_seqreset": lambda: FIXMessage("4", {34: exp_next, 36: exp_next + 3}),
                     "send_seqreset_renumber": lambda: FIXMessage("4", {34: exp_next, 36: exp_next + 3}),
                     # a decoded message relayed to this session that carries the decoder's repeated-tag marker: the encoder refuses it
                     # (C02); the refusal must not cost a number, or the next accepted message is not "one greater than the previous"
                     "send_unrepresentable": lambda: unrepresentable(),
                     # text that cannot be written as UTF-8 (a lone surrogate, as bytes.decode(errors="surrogateescape") produces): refused
                     "send_unencodable_text": lambda: FIXMessage("D", {11: f"u{step}", 55: "X", 58: "caf\udce9"}),
                     # the journal refuses the row (disk full, locked by another process): nothing is sent, no number is spent
                     "send_journal_refuses": lambda: FIXMessage("D", {11: f"jr{step}", 55: "X"}),
                     # the row and the counter update are executed, the COMMIT fails (the file is locked by a reader for longer than the
                     # busy timeout, the disk fills at the sync): refused all the same - nothing may stay pending in the journal's connection
                     "send_journal_commit_fails": lambda: FIXMessage("D", {11: f"jc{step}", 55: "X"}),
                     "send_test_req": None}[a]
                undo_journal = None
                if a == "send_journal_refuses":
                    import sqlite3
                    real_persist = j.persist_msg

                    def refusing_persist(*aa, **kk):
                        raise sqlite3.OperationalError("database or disk is full")
                    j.persist_msg = refusing_persist

                    def undo_journal():
                        del j.persist_msg
                if a == "send_journal_commit_fails":
                    import sqlite3
                    real_conn = j.conn

                    class CommitFails:
                        def __getattr__(self, n):
                            return getattr(real_conn, n)

                        def commit(self):
                            acc.add("journal_commits_failed")
                            raise sqlite3.OperationalError("database is locked")
                    j.conn = CommitFails()

                    def undo_journal():
                        j.conn = real_conn
                try:
                    if a == "send_test_req":
                        await ep.send_test_req()
                    else:
                        try:
                            await ep.send_msg(m())
                        finally:
                            if undo_journal is not None:
                                undo_journal()
                    accepted += 1
                    trace[-1] += ":ok"
                    if a == "send_seqreset_renumber":
                        j.set_seq_num(ep._session, next_num_out=exp_next + 3)
                        skipped.update(range(exp_next, exp_next + 3))
                        exp_next += 3
                except FIXConnectionError as e:
                    refused += 1
                    trace[-1] += ":refused"
                    acc.oracle("refused-send-unchanged")
                    after = snapshot()
                    if after != before:
                        what = []
                        if after[0] != before[0]:
                            what.append("bytes were written")
                        if after[1] != before[1]:
                            what.append(f"live counter {before[1]}->{after[1]}")
                        if after[2] != before[2]:
                            what.append(f"stored counter {before[2]}->{after[2]}")
                        if after[3] != before[3]:
                            what.append("journal rows changed")
                        V("refused-send-has-effects", f"{a} refused in {st.name} ({e}) but " + ", ".join(what))
                        return trace, refused, accepted
                    continue
                except Exception as e:
                    if a in ("send_unrepresentable", "send_unencodable_text", "send_journal_refuses", "send_journal_commit_fails"):
                        refused += 1
                        trace[-1] += f":refused-by-encoder:{type(e).__name__}"
                        acc.oracle("refused-send-unchanged")
                        after = snapshot()
                        if after != before:
                            V("encoder-refusal-consumes-a-number" if after[1] != before[1] or after[2] != before[2] else "encoder-refusal-has-effects",
                              f"{a} refused with {type(e).__name__} in {st.name}: live counter {before[1]}->{after[1]}, stored {before[2]}->{after[2]}, "
                              f"bytes written: {after[0] != before[0]}, journal rows changed: {after[3] != before[3]}")
                            return trace, refused, accepted
                        continue
                    V(f"send-raised:{type(e).__name__}", f"{a} in {st.name}: {e!r}")
                    return trace, refused, accepted
            elif a == "in_logon":
                ep.vf_reader.feed(peer.logon())
            elif a == "in_testreq":
                ep.vf_reader.feed(peer.frame("1", None, [(112, f"T{step}")]))
            elif a == "in_app":
                ep.vf_reader.feed(peer.frame("8", None, [(11, f"p{step}")]))
            elif a == "in_resendreq":
                # the peer asks for a replay: retransmissions and gap fills go out with their own numbers and do not disturb the numbering
                last_ = max(1, ep._session.next_num_out - 1)
                ep.vf_reader.feed(peer.frame("2", None, [(7, rnd.choice([1, max(1, last_ - 2), last_])), (16, rnd.choice([0, 0, last_]))]))
            elif a == "in_gapfill":
                # inbound SequenceReset-GapFill at the expected number: the library renumbers its INBOUND side through set_seq_num
                e_ = peer.next_out
                ep.vf_reader.feed(peer.frame("4", e_, [(123, "Y"), (36, e_ + 3)], possdup=True))
                peer.next_out = e_ + 3
            elif a == "in_gap":
                peer.next_out += 2
                ep.vf_reader.feed(peer.frame("8", None, [(11, f"p{step}")]))
            elif a == "in_badhb":
                ep.vf_reader.feed(peer.frame("0", None, [(112, "wrong")]))
            elif a == "in_toolow":
                ep.vf_reader.feed(peer.frame("8", max(1, peer.next_out - 3), [(11, "low")]))
            elif a == "in_logout":
                ep.vf_reader.feed(peer.frame("5", None, [(58, "bye")]))
            elif a == "closing_send":
                # one task is inside disconnect(), waiting for the transport to finish closing; another task of the application sends.
                # Accepted or refused - a refusal has no effects, an acceptance is numbered, journaled and handed to the transport
                import asyncio
                gate = asyncio.Event()
                writer = ep.vf_writer

                async def slow_close():
                    await gate.wait()
                writer.wait_closed_hook = slow_close
                # a transport with unsent data finishes closing (and reports connection_lost, which is what ends the reader) only when
                # its buffer is flushed: until then the reader sees nothing
                saved_on_close, writer.on_close = writer.on_close, None
                derr = []

                async def disc():
                    try:
                        await ep.disconnect(ConnectionState.DISCONNECTED_BROKEN_CONN)
                    except Exception as e:
                        derr.append(repr(e))
                td = asyncio.get_running_loop().create_task(disc())
                await settle()
                mid = snapshot()
                try:
                    await ep.send_msg(FIXMessage("D", {11: f"dd{step}", 55: "X"}))
                    trace[-1] += ":ok"
                    accepted += 1
                except FIXConnectionError as e:
                    refused += 1
                    trace[-1] += ":refused"
                    acc.oracle("refused-send-unchanged")
                    after = snapshot()
                    if after != mid:
                        V("refused-send-has-effects", f"send refused while another task was closing the connection ({e}) but live counter {mid[1]}->{after[1]}, "
                          f"stored {mid[2]}->{after[2]}, bytes written: {after[0] != mid[0]}, journal rows changed: {after[3] != mid[3]}")
                        return trace, refused, accepted
                except Exception as e:
                    V(f"send-raised:{type(e).__name__}", f"{a} in {st.name}: {e!r}")
                    return trace, refused, accepted
                gate.set()
                writer.wait_closed_hook = None
                if saved_on_close is not None:
                    saved_on_close()
                await settle()
                if derr:
                    V("disconnect-raised", derr[0])
                    return trace, refused, accepted
                acc.add("sends_while_another_task_was_closing_the_connection")
            elif a == "overlap_disconnect":
                # two application tasks send while the peer does not read (the first is parked in drain()); the connection is taken
                # down before the transport lets go.  Whatever was numbered was handed to the transport while the connection was up.
                import asyncio
                gate = asyncio.Event()
                writer = ep.vf_writer

                async def parked_drain():
                    await gate.wait()
                writer.drain_hook = parked_drain
                results = []

                async def snd(tag):
                    try:
                        await ep.send_msg(FIXMessage("D", {11: f"{tag}{step}", 55: "X"}))
                        results.append("ok")
                    except FIXConnectionError:
                        results.append("refused")
                    except Exception as e:
                        results.append(type(e).__name__)
                loop = asyncio.get_running_loop()
                t1 = loop.create_task(snd("ov1"))
                await settle()
                t2 = loop.create_task(snd("ov2"))
                await settle()
                try:
                    await ep.disconnect(ConnectionState.DISCONNECTED_BROKEN_CONN)
                except Exception as e:
                    V(f"disconnect-raised:{type(e).__name__}", repr(e))
                    return trace, refused, accepted
                await settle()
                gate.set()
                writer.drain_hook = None
                await settle()
                trace[-1] += ":" + "/".join(results)
                acc.add("overlapping_sends_cut_by_a_disconnect")
            elif a == "disconnect":
                try:
                    await ep.disconnect(ConnectionState.DISCONNECTED_WCONN_TODAY, logout_message=rnd.choice([None, "", "end of day"]))
                except Exception as e:
                    V(f"disconnect-raised:{type(e).__name__}", repr(e))
                    return trace, refused, accepted
            await settle()
            if ep.connection_state <= ConnectionState.DISCONNECTED_BROKEN_CONN:
                connected = False
            if not check_new_frames(tap0):
                return trace, refused, accepted
    except SpinAbort as e:
        V("spin", str(e))
    finally:
        E.stop_tasks(ep)
        if jfile is not None:
            import os
            try:
                j.cursor.close()
                j.conn.close()
            except Exception:
                pass
            for x in (jfile, jfile + "-journal"):
                if os.path.exists(x):
                    os.unlink(x)
    return trace, refused, accepted


def run_shard(spec, acc):
    from asyncfix.codec import Codec
    from asyncfix.connection import AsyncFIXConnection as C
    from asyncfix.journaler import Journaler
    from asyncfix.session import FIXSession
    from vf.core.reach import Reach
    from vf.sim import vclock
    acc.reach_obj = Reach({"send_msg": C.send_msg, "send_test_req": C.send_test_req, "Codec.encode": Codec.encode,
                           "allocate_next_num_out": FIXSession.allocate_next_num_out, "persist_msg": Journaler.persist_msg}).start()
    shard = spec["shard"]

    async def go(clock):
        for c in range(spec["n"]):
            cid = f"h:{shard}:{c}"
            if not acc.want(cid):
                continue
            rnd = random.Random(f"{spec['seed']}:C05:{shard}:{c}")
            trace, refused, accepted = await history(acc, clock, rnd, cid)
            acc.case(tuple(trace), nontrivial=refused >= 1 and accepted >= 3)
            acc.add("sends_refused", refused)
            acc.add("sends_accepted", accepted)
            for t in trace[2:]:
                if "@" in t:
                    acc.addmap("send_state_matrix", t.split(":")[0] + (":" + t.split(":")[1] if ":" in t else ""))
            acc.sample({"history": trace[:25]}, 2)
    vclock.run(go)
    acc.reach_obj.stop()
