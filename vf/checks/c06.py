"""C06  A ResendRequest is answered completely, in order and without side effects (chain-walk oracle)."""
import itertools
import random
import sys

from vf.ref import fixwire

META = {
    "level": "exploration",
    "rule": ("outbound journals built through the real send path of a logged-on connection: every sequence of length <= 3 (quick) / <= 4 "
             "(thorough) over slot kinds {application, application of a type sharing its first character with a session type (AE, AS, 8, j, ...), application with nested repeating groups (and an explicit PossDupFlag=N), application the replay filter declines, Heartbeat, TestRequest, ResendRequest, Logout, "
             "hole (number consumed, drain failed)} after the Logon reply, plus random journals up to 9 slots, optionally preceded by an "
             "earlier serviced ResendRequest (covering or partial) that leaves PossDup copies and gap-fill rows; x (BeginSeqNo, EndSeqNo) in "
             "{1, mid, last, last+1, last+10, 0, -3} x {0, Begin-1, Begin, mid, last, last+5} x state {ACTIVE, RESENDREQ_AWAITING}; oracle: "
             "independent chain walk over the tapped reply (contiguous from BeginSeqNo to min(End,last), retransmissions only of journaled, "
             "accepted application messages with PossDupFlag, OrigSendingTime = original SendingTime and identical body, everything else "
             "gap-filled, never beyond the range) + side effects (next outbound number live and stored, rows outside the range byte for "
             "byte, connection_state); distinct = (journal shape, prior, request, state); non-trivial = range contains >= 1 application "
             "message and >= 1 other slot"),
    "assumptions": ["for invalid requests (Begin > last, Begin <= 0, End < Begin) only the side-effect clause is judged",
                    "OrigSendingTime of a retransmitted earlier copy may be either the copy's 122 or its 52"],
}
REQUIRED_ORACLES = ["chain", "side-effects"]
REQUIRED_COUNTERS = ["cases_by_feature:hole-in-range", "cases_by_feature:bounded-end-below-last", "replies_with_a_concurrent_new_message",
                     "requests_served_after_the_clock_was_set_back"]
NSHARDS = 16
KINDS = ["app", "appx", "appg", "appu", "decl", "hb", "tr", "rr", "lo", "hole"]
APPX_TYPES = ["AE", "AS", "AB", "AZ", "8", "BZ", "j"]     # application types that share a first character with session types
SESSION_TYPES = {"A", "0", "1", "2", "4", "5"}


def plan(tier, seed):
    q = tier == "quick"
    return [{"shard": i, "nshards": NSHARDS, "exh_len": 3 if q else 4, "nrand": 150 if q else 5000} for i in range(NSHARDS)]


async def run_case(acc, clock, slots, prior, req, state, cid, concur=None, step_back=False):
    """slots: list of kinds; prior: None | "cover" | "partial"; req: (begin_spec, end_spec); state: "active" | "awaiting" """
    from asyncfix import FIXMessage, Journaler
    from asyncfix.connection import ConnectionRole, ConnectionState
    from asyncfix.message import MessageDirection as D
    from vf.sim import endpoint as E
    from vf.sim.net import settle, SpinAbort
    j = Journaler()
    ep = E.new_endpoint("generic", "ME", "PEER", j, name="ME", replay_filter=lambda m: not str(m.get(11, "")).startswith("decl"))
    E.attach(ep, clock, ConnectionRole.ACCEPTOR)
    E.start_reader(ep)
    peer = E.Peer("PEER", "ME")
    w = {"slots": slots, "prior": prior, "request": list(req), "state": state}

    async def feed(fr):
        ep.vf_reader.feed(fr)
        await settle()

    def rows():
        out = {}
        for m in j.recover_messages(ep._session, D.OUTBOUND, 0, sys.maxsize):
            f = fixwire.parse(m)
            out[int(fixwire.get(f, 34))] = m
        return out

    try:
        await feed(peer.logon())
        if ep.connection_state != ConnectionState.ACTIVE:
            acc.inconclusive("C06: logon failed")
            return None
        for i, k in enumerate(slots):
            try:
                if k == "app":
                    await ep.send_msg(FIXMessage("D", {11: f"ok{i}", 55: "X", 58: "a=b"}))
                elif k == "appx":
                    await ep.send_msg(FIXMessage(APPX_TYPES[(i + len(slots)) % len(APPX_TYPES)], {11: f"okx{i}", 55: "X"}))
                elif k == "appg":
                    # an application message with (nested) repeating groups and an explicit PossDupFlag=N: retransmitted with the same body
                    mg = FIXMessage("D", {11: f"okg{i}", 55: "X"})
                    mg.set_group(453, [{448: "p1", 447: "D", 452: 1}, {448: "p2", 447: "D", 452: 3, 802: [{523: "s", 803: 1}]}])
                    if i % 2:
                        mg[43] = "N"
                    await ep.send_msg(mg)
                elif k == "appu":
                    # an application message with a repeating group the protocol's group table does not list (News: NoLinesOfText):
                    # it was sent, it is in the journal, it is retransmitted like any other
                    mu = FIXMessage("B", {11: f"oku{i}", 148: "headline"})
                    mu.set_group(33, [{58: "line one"}, {58: "line two"}])
                    await ep.send_msg(mu)
                elif k == "decl":
                    await ep.send_msg(FIXMessage("D", {11: f"decl{i}", 55: "X"}))
                elif k == "hb":
                    await ep.send_msg(FIXMessage("0"))
                elif k == "tr":
                    await ep.send_test_req()
                    await feed(peer.frame("0", None, [(112, ep._test_req_id)]))
                elif k == "rr":
                    await ep.send_msg(FIXMessage("2", {7: 1, 16: 0}))
                elif k == "lo":
                    await ep.send_msg(FIXMessage("5", {58: "x"}))
                elif k == "hole":
                    # numbers that never reach the journal: the application jumps its own numbering (SequenceReset-Reset announcing it,
                    # then the renumbering call the library provides).  (Until the write-ahead journaling of repo fix 2b27e94 a failed
                    # drain() left such a hole too; it no longer does.)
                    n_ = ep._session.next_num_out
                    await ep.send_msg(FIXMessage("4", {34: n_, 36: n_ + 2}))
                    j.set_seq_num(ep._session, next_num_out=n_ + 2)
            except Exception as e:
                acc.add("journal_build_exceptions")
                return None
            clock.now += 0.25   # distinct SendingTimes
        if prior:
            last0 = ep._session.next_num_out - 1
            b0 = 1 if prior == "cover" else max(1, (last0 + 1) // 2)
            await feed(peer.frame("2", None, [(7, b0), (16, 0)]))
            if ep.connection_state != ConnectionState.ACTIVE:
                acc.add("prior_resend_left_bad_state")
                return None
            clock.now += 1.0
        if state == "awaiting":
            peer.next_out += 2
            await feed(peer.frame("8", None, [(11, "gap")]))
            if ep.connection_state != ConnectionState.RESENDREQ_AWAITING:
                acc.add("awaiting_not_reached")
                return None
        # ---- snapshot before
        before = rows()
        out0 = ep._session.next_num_out
        stored0 = j.create_or_load("PEER", "ME").next_num_out
        st0 = ep.connection_state
        last = out0 - 1
        mid = max(1, (last + 1) // 2)
        bspec, espec = req
        malformed = bspec in ("missing", "abc", "empty") or espec in ("missing", "abc", "empty")
        begin = {"1": 1, "mid": mid, "last": last, "last+1": last + 1, "last+10": last + 10, "0": 0, "-3": -3, "missing": 1, "abc": 1, "empty": 1, "huge": 10 ** 19 + 7}[bspec]
        end = {"0": 0, "b-1": begin - 1, "b": begin, "mid": mid, "last": last, "last+5": last + 5, "missing": 0, "abc": 0, "empty": 0, "huge": 10 ** 19 + 9}[espec]
        w.update({"begin": begin, "end": end, "last": last, "journal_before": {k: fixwire.show(v)[:120] for k, v in before.items()}})
        if step_back:
            # the wall clock is set back (NTP step, fail-over to a host whose clock is behind) between the originals and the request:
            # OrigSendingTime is the original's SendingTime all the same
            clock.now -= 45.0
            w["clock_stepped_back"] = True
            acc.add("requests_served_after_the_clock_was_set_back")
        tap0 = len(ep.vf_tap)
        exc0 = len(ep.vf_log.exceptions)
        conc = {"n": 0, "sent": 0, "err": None}
        if concur is not None:
            # another task of the application sends a new message while the reply is suspended in the drain() of its concur-th frame
            import asyncio

            async def live():
                try:
                    await ep.send_msg(FIXMessage("D", {11: "live1", 55: "X"}))
                    conc["sent"] += 1
                except Exception as e:        # refused while the reply is written: the application's business
                    conc["err"] = repr(e)

            async def drain_hook():
                conc["n"] += 1
                if conc["n"] == concur:
                    asyncio.get_running_loop().create_task(live())
                    await asyncio.sleep(0)
            if concur == "hook":
                # the application's on_state_change callback itself sends the new message when the connection starts to handle the
                # request: it is on the wire before the first reply frame, so the reply may (not must) retransmit it - never skip it
                async def on_state_change(state, *a):
                    if getattr(state, "name", "") == "RESENDREQ_HANDLING" and not conc["n"]:
                        conc["n"] = 1
                        conc["before_reply"] = True
                        await live()
                ep.vf_hooks["on_state_change"] = on_state_change
            else:
                ep.vf_writer.drain_hook = drain_hook
            w["concurrent_send_at_drain"] = concur
        if malformed:
            # a ResendRequest whose range cannot be read (tag missing, empty, not a number): nothing to answer, and nothing changes
            body = []
            if bspec != "missing":
                body.append((7, {"abc": "abc", "empty": ""}.get(bspec, begin)))
            if espec != "missing":
                body.append((16, {"abc": "abc", "empty": ""}.get(espec, end)))
            await feed(peer.frame("2", None, body))
            acc.add("requests_whose_range_cannot_be_read")
        else:
            await feed(peer.frame("2", None, [(7, begin), (16, end)]))
        ep.vf_writer.drain_hook = None
        ep.vf_hooks.pop("on_state_change", None)
        w["concurrent_send"] = dict(conc)
        reply = E.parse_tap(ep.vf_tap.frames(tap0))
        w["reply"] = [fixwire.show(b)[:140] for b in ep.vf_tap.frames(tap0)]
        w["swallowed"] = ep.vf_log.exceptions[exc0:][:3]
        # ---- features for classification
        hi = min(end, last) if end != 0 else last
        invalid = malformed or begin > last or begin <= 0 or (end != 0 and end < begin)
        inrange = [q for q in before if begin <= q <= hi] if not invalid else []
        parsed_before = {q: fixwire.parse(m) for q, m in before.items()}
        feats = []
        if malformed:
            feats.append("unreadable-range")
        elif begin <= 0:
            feats.append("nonpositive-begin")
        elif begin > last:
            feats.append("begin-beyond-last")
        elif end != 0 and end < begin:
            feats.append("end-below-begin")
        if any(fixwire.get(parsed_before[q], 43) == "Y" for q in inrange):
            feats.append("possdup-copy-in-range")
        if any(fixwire.get(parsed_before[q], 35) == "4" and int(fixwire.get(parsed_before[q], 36)) > q + 1 for q in inrange):
            feats.append("multi-number-gapfill-row-in-range")
        if not invalid and end != 0 and end < last:
            feats.append("bounded-end-below-last")
        if not invalid and any(q not in before for q in range(begin, hi + 1)) and not any(fixwire.get(parsed_before[q], 35) == "4" for q in inrange):
            feats.append("hole-in-range")
        # a journaled message carrying a repeating group that the protocol's group table does not list cannot be re-encoded by the
        # replay (RepeatingTagError, swallowed): listed finding, keyed by exactly this mechanism
        if any(fixwire.get(parsed_before[q], 33) is not None and fixwire.get(parsed_before[q], 35) == "B" for q in inrange) and \
                any("RepeatingTagError" in x for x in w["swallowed"]):
            feats.insert(0, "unlisted-group-in-range")
        if "huge" in (bspec, espec) and any("OverflowError" in x for x in w["swallowed"]):
            feats.insert(0, "number-beyond-int64")
        feat = feats[0] if feats else "plain"
        if "possdup-copy-in-range" in feats and any("DuplicatedTagError" in x for x in w["swallowed"]):
            feat = "possdup-copy-in-range"

        def V(clause, what):
            if feat == "plain":
                acc.violation(clause, what, w, cid)
            else:
                # attributed to the listed mechanism; the clause is kept in the text
                acc.violation(f"{feat}|{clause.split(':')[0]}", f"[{clause}] {what}", w, cid)

        def must_retransmit(q):
            f = parsed_before.get(q)
            if f is None:
                return False
            return fixwire.get(f, 35) not in SESSION_TYPES and not str(fixwire.get(f, 11, "")).startswith("decl")

        ok = True
        if not invalid:
            acc.oracle("chain")
            extra_ok = bool(conc.get("before_reply") and conc["sent"] and (end == 0 or end > last))
            took_extra = False
            c = begin
            for fr in reply:
                if isinstance(fr, Exception):
                    V("chain:unparseable-frame", str(fr)); ok = False; break
                mt = fixwire.get(fr, 35)
                n = int(fixwire.get(fr, 34))
                if conc["sent"] and mt == "D" and fixwire.get(fr, 11) == "live1" and fixwire.get(fr, 43) != "Y":
                    if n != out0:
                        V("chain:concurrent-new-message-misnumbered", f"the message sent during the reply carries {n}, next number was {out0}"); ok = False; break
                    continue            # the live frame of the concurrent sender: not part of the reply
                if extra_ok and c == out0 and n == out0 and mt == "D" and fixwire.get(fr, 11) == "live1" and fixwire.get(fr, 43) == "Y":
                    c += 1              # the message the callback sent before the reply started, retransmitted: fine
                    took_extra = True
                    continue
                if n != c:
                    V("chain:not-contiguous", f"frame numbered {n} where {c} was due"); ok = False; break
                if mt == "4":
                    if fixwire.get(fr, 123) != "Y":
                        V("chain:sequence-reset-without-gapfill-flag", ""); ok = False; break
                    N = int(fixwire.get(fr, 36))
                    if N <= c:
                        V("chain:gapfill-not-forward", f"{c} -> {N}"); ok = False; break
                    if N > hi + 1:
                        V("chain:gapfill-beyond-requested-range", f"gap fill to {N}, range ends at {hi}"); ok = False; break
                    cov = [q for q in range(c, N) if must_retransmit(q)]
                    if cov:
                        V("chain:gapfill-covers-replayable-message", f"numbers {cov}"); ok = False; break
                    c = N
                else:
                    if fixwire.get(fr, 43) != "Y":
                        V("chain:retransmission-without-possdup", f"number {n}"); ok = False; break
                    if sum(1 for t_, _ in fr if t_ == "43") != 1 or sum(1 for t_, _ in fr if t_ == "122") != 1:
                        V("chain:possdup-fields-not-exactly-once", f"number {n}: PossDupFlag x{sum(1 for t_, _ in fr if t_ == '43')}, "
                          f"OrigSendingTime x{sum(1 for t_, _ in fr if t_ == '122')}"); ok = False; break
                    o = parsed_before.get(c)
                    if o is None:
                        V("chain:retransmission-of-unjournaled-number", f"{c}"); ok = False; break
                    if fixwire.get(o, 35) in SESSION_TYPES:
                        V("chain:session-message-retransmitted", f"type {fixwire.get(o, 35)} number {c}"); ok = False; break
                    if str(fixwire.get(o, 11, "")).startswith("decl"):
                        V("chain:declined-message-retransmitted", f"number {c}"); ok = False; break
                    origs = {fixwire.get(o, 52)} | ({fixwire.get(o, 122)} if fixwire.get(o, 43) == "Y" else set())
                    if fixwire.get(fr, 122) not in origs:
                        V("chain:origsendingtime", f"122={fixwire.get(fr, 122)} original 52={fixwire.get(o, 52)}"); ok = False; break
                    strip = lambda fs: [(t, v) for t, v in fs if t not in ("9", "10", "52", "43", "122")]
                    if sorted(strip(fr)) != sorted(strip(o)) or [t for t, _ in strip(fr) if t not in ("8", "35", "49", "56", "34")] != \
                            [t for t, _ in strip(o) if t not in ("8", "35", "49", "56", "34")]:
                        V("chain:retransmitted-body-differs", f"{strip(fr)[:8]} vs {strip(o)[:8]}"); ok = False; break
                    if c > hi:
                        V("chain:retransmission-beyond-range", f"{c} > {hi}"); ok = False; break
                    c += 1
            if ok and c != hi + 1 and not (took_extra and c == hi + 2):
                V("chain:ends-early", f"chain reaches {c}, range ends at {hi} (begin={begin} end={end} last={last})")
                ok = False
        acc.oracle("side-effects")
        if ok:
            live, stored = ep._session.next_num_out, j.create_or_load("PEER", "ME").next_num_out
            # (a stored counter that lagged behind the live one before the request - number consumed by a failed drain -
            #  may catch up; that is not an effect of the request the statement forbids)
            if live != out0 + conc["sent"] or stored not in (stored0, out0, out0 + conc["sent"]):
                V("effects:next-outbound-number-changed", f"live {out0}->{live} stored {stored0}->{stored}")
                ok = False
        if ok and ep.connection_state != st0:
            V("effects:connection-state-changed", f"{st0.name} -> {ep.connection_state.name}")
            ok = False
        if ok:
            after = rows()
            for q, m in before.items():
                if invalid or not (begin <= q <= hi):
                    if after.get(q) != m:
                        V("effects:journal-row-outside-range-changed", f"number {q}: {'deleted' if q not in after else 'rewritten'}")
                        ok = False
                        break
        if ok and E.task_failure(ep) is not None:
            V("reader-task-died", repr(E.task_failure(ep)))
        napp = sum(1 for q in inrange if must_retransmit(q))
        if conc["sent"]:
            acc.add("replies_with_a_concurrent_new_message")
        return feat, (napp >= 1 and len(inrange) - napp >= 1), invalid
    except SpinAbort as e:
        acc.violation("reader-spins", str(e), w, cid)
        return None
    finally:
        E.stop_tasks(ep)


# ("huge": a number beyond 2^63 - some engines write "infinity" that way; as EndSeqNo it means "up to the last one" like any number above it)
BEGINS = ["1", "mid", "last", "last+1", "last+10", "0", "-3", "missing", "abc", "empty", "huge"]
ENDS = ["0", "b-1", "b", "mid", "last", "last+5", "missing", "abc", "huge"]


def run_shard(spec, acc):
    from asyncfix.connection import AsyncFIXConnection as C
    from asyncfix.journaler import Journaler
    from vf.core.reach import Reach
    from vf.sim import vclock
    acc.reach_obj = Reach({"_process_resend": C._process_resend, "recover_messages": Journaler.recover_messages, "should_replay": C.should_replay}).start()
    shard, nsh = spec["shard"], spec["nshards"]

    async def go(clock):
        idx = 0
        for L in range(0, spec["exh_len"] + 1):
            for slots in itertools.product(KINDS, repeat=L):
                for prior in (None, "cover"):
                    for state in ("active", "awaiting"):
                        if prior and L > 2:
                            continue
                        for b in BEGINS:
                            for e in ENDS:
                                idx += 1
                                if idx % nsh != shard:
                                    continue
                                # thin out the full product: every journal sees every begin and every end, not every pair
                                if L >= 3 and (hash((slots, b, e)) % 5) not in (0,) and not (e == "0" or b == "1"):
                                    continue
                                cid = f"ex:{'.'.join(slots)}:{prior}:{state}:{b}:{e}"
                                if not acc.want(cid):
                                    continue
                                r = await run_case(acc, clock, list(slots), prior, (b, e), state, cid, step_back=(idx % 11 == 0))
                                if r is None:
                                    continue
                                acc.case_disjoint(nontrivial=r[1])
                                acc.addmap("cases_by_feature", r[0])
        for c in range(spec["nrand"]):
            cid = f"rand:{shard}:{c}"
            if not acc.want(cid):
                continue
            rnd = random.Random(f"{spec['seed']}:C06:{shard}:{c}")
            slots = [rnd.choice(KINDS + ["app", "app"]) for _ in range(rnd.randrange(2, 10))]
            prior = rnd.choice([None, None, "cover", "partial"])
            concur = rnd.choice([None, None, 1, 1, 2, 3, "hook", "hook"])
            r = await run_case(acc, clock, slots, prior, (rnd.choice(BEGINS + ["1", "mid"]), rnd.choice(ENDS + ["0", "0"])), rnd.choice(["active", "awaiting"]), cid, concur,
                               step_back=rnd.random() < 0.2)
            if r is None:
                continue
            acc.case((tuple(slots), prior, cid.split(":")[0]), nontrivial=r[1])
            acc.addmap("cases_by_feature", r[0])
            acc.sample({"slots": slots, "prior": prior}, 2)
    vclock.run(go)
    acc.reach_obj.stop()
