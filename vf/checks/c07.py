"""C07  No application message is lost, duplicated or reordered across connection loss (two real endpoints, fault enumeration).

AsyncFIXClient + AsyncFIXDummyServer subclasses (recording only), real reader and heartbeat tasks, real in-memory journals
that outlive every connection attempt, on a frame-granular link (vf.sim.link).  A history is a sequence of actions: send on
either side (unique ids), deliver the next frame to either side, let virtual time pass, break the link with a chosen fault
kind per end (everything in flight lost), reconnect.  At the end the harness reconnects if needed, delivers everything in
flight and lets time pass until the link is idle; then the oracle compares what each application received with what the
other side's send calls accepted.
"""
import asyncio
import random

from vf.ref import fixwire

META = {
    "level": "fault_enumeration",
    "rule": ("(a) ALL action sequences up to depth 8 (quick) / 10 (thorough) over {send on I, send on A, deliver to I, deliver to A, break, reconnect} "
             "with <= 2 sends per side and <= 2 breaks, from a logged-on start, breaks announced by EOF to both ends (every frame boundary in either "
             "direction is a break point by construction: a break is an action between two deliveries); (b) seeded random walks of 30-110 actions "
             "with up to 5 breaks, fault kinds per end in {EOF, ConnectionResetError, BrokenPipeError, silent (found by the watchdog), "
             "TimeoutError/OSError on read}, failing drain(), time passing (heartbeats and TestRequests in flight); then forced reconnect, "
             "completed Logon exchange, delivery of everything in flight, and the comparison rx(other side) == accepted sends in order, both "
             "ACTIVE, next-in == peer's next-out; distinct = hash of the action trace; non-trivial = >= 1 break with frames in flight or unacknowledged"),
    "assumptions": ["'any number of breaks' is explored exhaustively to 2 breaks and randomly to 5",
                    "both ends eventually learn of a break (the acceptor at the latest when the initiator reconnects: the single-connection dummy server needs the old socket gone)",
                    "a send whose drain() raised stays open: its message may arrive at most once",
                    "quiescence is bounded: 12 fault-free rounds of (deliver everything, let >= 95 virtual seconds pass, reconnect if down); a history that does not reach it within the bound violates the 'ACTIVE after the exchange completes' clause (bounded progress, virtual time only)"],
}
REQUIRED_ORACLES = ["quiescent-comparison", "exhaustive-sequences", "breaks-with-traffic-in-flight"]
REQUIRED_COUNTERS = ["breaks_in_the_middle_of_a_frame", "burst_histories", "connections_dying_under_a_handlers_reply", "new_messages_sent_by_another_task_during_a_retransmission", "breaks_with_traffic_in_flight_or_unacknowledged"]
NSHARDS = 16
EXH_DEPTH = {"quick": 8, "thorough": 10}
NRAND = {"quick": 60, "thorough": 4000}
SHARD_TIMEOUT = {"quick": 900, "thorough": 7200}
HB = 30
READ_FAULTS = ["eof", "eof", "reset", "pipe", "silent", "timeout", "oserror"]


def plan(tier, seed):
    return [{"shard": i, "nshards": NSHARDS, "exh_depth": EXH_DEPTH[tier], "nrand": NRAND[tier]} for i in range(NSHARDS)]


class Sess:
    """one world + bookkeeping of accepted / open sends"""

    def __init__(self, clock, shared_journal=False):
        from asyncfix import FIXMessage, Journaler
        from vf.sim import endpoint as E
        from vf.sim.link import World
        self.clock = clock
        self.j = {"I": Journaler(), "A": Journaler()}
        self.shared_journal = shared_journal
        if shared_journal:
            # both endpoints live in one process and keep their (different) sessions in one journal
            self.j["A"] = self.j["I"]

        def mk_I():
            ep = E.new_endpoint("client", "INIT", "ACC", self.j["I"], hb=HB, name="I")

            async def on_connect():
                try:
                    await ep.send_msg(FIXMessage("A", {98: 0, 108: HB}))
                except Exception as e:      # the application sees its Logon fail; recorded, judged at the end
                    ep.ev.append(("logon-send-raised", type(e).__name__))
                    self.logon_errors.append(type(e).__name__)
            ep.vf_hooks["on_connect"] = on_connect
            return ep

        def mk_A():
            return E.new_endpoint("server", "ACC", "INIT", self.j["A"], hb=HB, name="A")
        self.w = World(clock, mk_I, mk_A)
        self.acker = False
        self.dying = 0
        self.concurrent = False
        self.concurrent_sends = 0
        self.accepted = {"I": [], "A": []}
        self.open_ids = {"I": [], "A": []}
        self.refused = 0
        self.cnt = 0
        self.breaks = 0
        self.breaks_with_traffic = 0
        self.trace = []
        self.spin = None
        self.logon_errors = []

    def enable_concurrent_sender(self):
        """a second task of the same application sends a new message while a retransmission (PossDup frame) of that side is suspended in
        drain(): once per connection generation and side"""
        import asyncio
        from asyncfix import FIXMessage
        from asyncfix.errors import FIXConnectionError
        self.concurrent = True
        fired = set()

        async def call(side):
            tap = self.w.tap[side]
            last = tap.items[-1][1] if tap.items else b""
            key = (side, self.w.connects)
            if b"\x0143=Y\x01" not in last or b"\x0135=D\x01" not in last or key in fired:
                return
            fired.add(key)
            self.cnt += 1
            ident = f"{side.lower()}{self.cnt}c"

            async def live():
                try:
                    await self.w.ep[side].send_msg(FIXMessage("D", {11: ident, 55: "X"}))
                    self.accepted[side].append(ident)
                    self.concurrent_sends += 1
                except FIXConnectionError:
                    self.refused += 1
                except Exception:
                    self.open_ids[side].append(ident)
            asyncio.get_running_loop().create_task(live())
            await asyncio.sleep(0)
        self.w.drain_call["I"] = self.w.drain_call["A"] = call

    def enable_ackers(self):
        """applications that answer every order from inside on_message (an execution report back on the same connection)"""
        from asyncfix import FIXMessage
        from asyncfix.errors import FIXConnectionError
        self.acker = True
        for side in "IA":
            ep = self.w.ep[side]

            async def on_message(msg, ep=ep, side=side):
                ident = str(msg.get(11, ""))
                mt = getattr(msg.msg_type, "value", msg.msg_type)
                if mt != "D" or ident.startswith("ack"):
                    return
                aid = f"ack-{ident}"
                try:
                    await ep.send_msg(FIXMessage("8", {11: aid, 17: aid, 37: "O", 150: "0", 39: "0", 54: "1", 55: "X", 14: 0, 151: 1, 6: 0}))
                    self.accepted[side].append(aid)
                except FIXConnectionError:
                    self.refused += 1
                except Exception:
                    self.open_ids[side].append(aid)
                    raise
            ep.vf_hooks["on_message"] = on_message

    async def start(self):
        from vf.sim.net import install_open_connection, settle
        self.undo = install_open_connection(self.w.open)
        await self.w.start_tasks()
        await self.w.ep["I"].connect()
        await settle()

    async def pump(self, limit=400):
        """deliver everything in flight, alternating"""
        n = 0
        while n < limit and (self.w.in_flight("I") or self.w.in_flight("A")):
            for s in "AI":
                if self.w.in_flight(s):
                    await self.w.deliver(s)
                    n += 1
        return n < limit

    async def send(self, side):
        from asyncfix import FIXMessage
        from asyncfix.errors import FIXConnectionError
        from vf.sim.net import settle
        self.cnt += 1
        ident = f"{side.lower()}{self.cnt}"
        try:
            # mostly orders; now and then the other message types an application sends and receives through the same API
            mt = "D" if self.cnt % 7 else ("n", "3", "j", "B", "8", "U1")[(self.cnt // 7) % 6]      # (U1: a type the library's enum does not list)
            body = {11: ident, 55: "X"} if mt in ("D", "8") else {11: ident, 58: "text", 45: 1, 372: "D", 380: 0}
            await self.w.ep[side].send_msg(FIXMessage(mt, body))
            self.accepted[side].append(ident)
            r = "ok"
        except FIXConnectionError:
            self.refused += 1
            r = "refused"
        except Exception as e:
            self.open_ids[side].append(ident)
            r = f"open:{type(e).__name__}"
        await settle()
        return ident, r

    def unacked(self):
        """is there anything a break can lose: frames in flight, or sent numbers the peer has not processed"""
        w = self.w
        return bool(w.in_flight("I") or w.in_flight("A") or w.ep["I"]._session.next_num_out != w.ep["A"]._session.next_num_in
                    or w.ep["A"]._session.next_num_out != w.ep["I"]._session.next_num_in)

    async def brk(self, kI="eof", kA="eof", dI=None, dA=None, partial=None):
        if self.w.link is None or not self.w.link.up:
            return False
        self.breaks += 1
        if self.unacked():
            self.breaks_with_traffic += 1
        await self.w.break_(kI, kA, dI, dA, partial)
        return True

    async def reconnect(self):
        from asyncfix.errors import FIXConnectionError
        from vf.sim.net import settle, advance
        I = self.w.ep["I"]
        if self.w.connected("I"):
            return False
        await advance(1.1)          # the parked reader tasks poll for a new socket once per second
        if self.w.connected("I"):   # the library's own reconnect timer was faster
            return True
        try:
            await I.connect()
        except FIXConnectionError:
            return False
        await advance(1.1)
        return True

    def state(self):
        w = self.w
        return (w.ep["I"].connection_state.name, w.ep["A"].connection_state.name, w.ep["I"]._session.next_num_in, w.ep["I"]._session.next_num_out,
                w.ep["A"]._session.next_num_in, w.ep["A"]._session.next_num_out, len(w.ep["I"].rx), len(w.ep["A"].rx),
                w.in_flight("I"), w.in_flight("A"), w.connected("I"), w.connected("A"), bool(w.link and w.link.up))

    async def quiesce(self, acc):
        """forced reconnect, completed Logon exchange, delivery of everything in flight: bounded"""
        from asyncfix.connection import ConnectionState as CS
        from vf.sim.net import advance
        w = self.w
        seen = set()
        for rnd_ in range(12):
            if not await self.pump():
                return "pump-limit"
            I, A = w.ep["I"], w.ep["A"]
            up = bool(w.link and w.link.up)
            if (up and I.connection_state == CS.ACTIVE and A.connection_state == CS.ACTIVE and not w.in_flight("I") and not w.in_flight("A")):
                # let two heartbeat intervals pass with every frame delivered: the session must stay where it is
                for _ in range(3):
                    await advance(HB + 1)
                    if not await self.pump():
                        return "pump-limit"
                if (I.connection_state == CS.ACTIVE and A.connection_state == CS.ACTIVE and w.link.up):
                    return "quiescent"
                continue
            h = self.state() + (len(w.tap["I"]) - len(w.tap["A"]),)
            if h in seen and rnd_ > 3:
                return "cycle"
            seen.add(h)
            if w.link is not None and not w.link.up:
                # a broken link: ends that have not been told yet learn it now (the OS reports it at the latest on the next write)
                for s in "IA":
                    await w.notify(s, "eof")
            if not w.connected("I"):
                await self.reconnect()
            else:
                await advance(3 * HB + 5)     # let the watchdogs act on half-open states
        return "bound"

    def stop(self):
        self.w.stop()
        self.undo()


def final_oracle(acc, s, how, cid, extra=None):
    """the property, evaluated at quiescence"""
    from asyncfix.connection import ConnectionState as CS
    w = s.w
    I, A = w.ep["I"], w.ep["A"]
    wit = {"trace": s.trace[-60:], "accepted": s.accepted, "open": s.open_ids, "rx_A": [r[1] for r in A.rx], "rx_I": [r[1] for r in I.rx],
           "states": [I.connection_state.name, A.connection_state.name],
           "counters": {"I_in": I._session.next_num_in, "I_out": I._session.next_num_out, "A_in": A._session.next_num_in, "A_out": A._session.next_num_out},
           "swallowed_I": sorted(set(I.vf_log.exceptions))[-6:], "swallowed_A": sorted(set(A.vf_log.exceptions))[-6:], "quiesce": how}
    if extra:
        wit.update(extra)
    problems = []
    for src, dst in (("I", "A"), ("A", "I")):
        rx = [r[1] for r in w.ep[dst].rx]
        acc_ids = s.accepted[src]
        open_ids = set(s.open_ids[src])
        for o in open_ids:
            if rx.count(o) > 1:
                problems.append(("duplicated", f"{o} (a send that raised) was delivered {rx.count(o)} times to {dst}"))
        core = [x for x in rx if x not in open_ids]
        if core == acc_ids:
            continue
        dups = sorted({x for x in core if core.count(x) > 1})
        lost = [x for x in acc_ids if x not in core]
        alien = [x for x in core if x not in acc_ids]
        if dups:
            problems.append(("duplicated", f"{dst} received {dups} more than once"))
        elif lost:
            problems.append(("lost", f"{dst} never received {lost} (accepted by {src}.send_msg)"))
        elif alien:
            problems.append(("alien", f"{dst} received {alien} which no send call accepted"))
        else:
            problems.append(("reordered", f"{dst} received {core}, sent {acc_ids}"))
    if not problems:
        if I.connection_state != CS.ACTIVE or A.connection_state != CS.ACTIVE:
            problems.append(("not-active", f"states {I.connection_state.name} / {A.connection_state.name}"))
        elif I._session.next_num_in != A._session.next_num_out or A._session.next_num_in != I._session.next_num_out:
            problems.append(("counters-disagree", f"{wit['counters']}"))
    return problems, wit


def classify(s, problems, wit):
    """mechanism key for a failed history"""
    kind = problems[0][0]
    flags = s.flags
    if flags.get("spin"):
        return "non-connection-oserror-on-read-spins"
    sw = " ".join(wit.get("swallowed_I", []) + wit.get("swallowed_A", []))
    if "DuplicateSeqNoError" in sw or "DuplicateSeqNoError" in s.logon_errors:
        return "outbound-journal-corrupted-by-resend-servicing:DuplicateSeqNoError"
    if shortened_gapfill(s):
        return "journaled-gapfill-row-shortens-later-replay-chain"
    if "DuplicatedTagError" in sw:
        return "second-resend-request-aborts-on-journaled-possdup-copy"
    if flags.get("break_during_resend"):
        return "break-during-resend-recovery"
    if flags.get("send_failed_hole"):
        return "failed-drain-leaves-unjournaled-number"
    return kind


def shortened_gapfill(s):
    """did an endpoint send a gap fill n -> k after having sent n -> m with m > k (C06: a journaled multi-number gap-fill row is
    re-covered as 'one number' by the next replay)"""
    for side in "IA":
        best = {}
        for b in s.w.tap[side].frames():
            if b"\x0135=4\x01" not in b:
                continue
            try:
                f = fixwire.parse(b)
            except fixwire.FrameError:
                continue
            if fixwire.get(f, 123) != "Y":
                continue
            n, m = int(fixwire.get(f, 34)), int(fixwire.get(f, 36))
            if n in best and m < best[n]:
                return True
            best[n] = max(best.get(n, 0), m)
    return False


async def run_history(acc, clock, actions_fn, cid, exhaustive=False, ackers=False, concurrent=False, shared_journal=False):
    """actions_fn(sess, step) -> action tuple or None to stop.  Returns Sess."""
    from asyncfix.connection import ConnectionState as CS
    from vf.sim.net import SpinAbort, advance, settle
    s = Sess(clock, shared_journal)
    s.flags = {}
    try:
        if ackers:
            s.enable_ackers()
        if concurrent:
            s.enable_concurrent_sender()
        await s.start()
        if not await s.pump():
            return s, "setup"
        if s.w.ep["I"].connection_state != CS.ACTIVE or s.w.ep["A"].connection_state != CS.ACTIVE:
            return s, "setup"
        step = 0
        while True:
            a = actions_fn(s, step)
            step += 1
            if a is None:
                break
            k = a[0]
            if k == "send":
                ident, r = await s.send(a[1])
                s.trace.append(f"send{a[1]}:{ident}:{r}@{s.w.ep[a[1]].connection_state.name}")
                if r.startswith("open"):
                    s.flags["send_failed_hole"] = True
            elif k == "deliver":
                ok = await s.w.deliver(a[1])
                s.trace.append(f"deliver{a[1]}" + ("" if ok else "(nothing)"))
            elif k == "break":
                # is a resend recovery under way (a ResendRequest or its reply chain in flight / being awaited)?
                if resend_in_progress(s):
                    s.flags["break_during_resend"] = True
                await s.brk(*a[1:])
                s.trace.append("break:" + "/".join(str(x) if not isinstance(x, BaseException) else type(x).__name__ for x in a[1:]))
            elif k == "reconnect":
                ok = await s.reconnect()
                s.trace.append("reconnect" + ("" if ok else "(no)"))
            elif k == "time":
                await advance(a[1])
                s.trace.append(f"time+{a[1]}")
            elif k == "deliver_dying":
                # the connection dies exactly while `side` handles the next frame: the drain() of whatever it writes in reaction raises,
                # then the link is gone
                side = a[1]
                if s.w.in_flight(side):
                    s.w.drain_once[side] = ConnectionResetError("connection reset while the reply was written")
                    await s.w.deliver(side)
                    s.w.drain_once[side] = None
                    await s.brk("eof", "eof")
                    s.trace.append(f"deliver{side}+dies-under-the-reply")
                    s.dying += 1
            elif k == "burst":
                n_ = a[2]
                for _ in range(n_):
                    await s.send(a[1])
                s.trace.append(f"burst{a[1]}x{n_}")
            if resend_in_progress(s) and (s.w.link is None or not s.w.link.up):
                s.flags["break_during_resend"] = True
        how = await s.quiesce(acc)
        from vf.sim import endpoint as E_
        for side in "IA":
            tf = E_.task_failure(s.w.ep[side])
            if isinstance(tf, SpinAbort):
                s.flags["spin"] = True
                s.spin = f"{side}: {tf}"
                return s, "spin"
        return s, how
    except SpinAbort as e:
        s.flags["spin"] = True
        s.spin = str(e)
        return s, "spin"
    finally:
        s.stop()


def resend_in_progress(s):
    from asyncfix.connection import ConnectionState as CS
    w = s.w
    for side in "IA":
        if w.ep[side].connection_state in (CS.RESENDREQ_AWAITING, CS.RESENDREQ_HANDLING, CS.RECV_SEQNUM_TOO_HIGH):
            return True
    if w.link is not None:
        for side in "IA":
            for x in w.link.q[side]:
                if isinstance(x, bytes) and (b"\x0135=2\x01" in x or b"\x0143=Y\x01" in x or b"\x0135=4\x01" in x):
                    return True
    return False


def judge(acc, s, how, cid):
    if how == "setup":
        acc.add("setup_failed")
        return False
    if how == "spin":
        acc.violation("non-connection-oserror-on-read-spins", s.spin, {"trace": s.trace[-30:]}, cid)
        return True
    if how != "quiescent":
        acc.addmap("no_quiescence", how)
        # not reaching ACTIVE/ACTIVE with an idle link is itself a failure when it is a proven cycle
        problems, wit = final_oracle(acc, s, how, cid)
        if how == "cycle":
            key = classify(s, [("no-quiescence-cycle", "")], wit)
            acc.violation(key if key != "no-quiescence-cycle" else "no-quiescence-cycle", f"the session never re-establishes: global state repeats ({s.state()})", wit, cid)
            return True
        if how == "bound":
            # bounded progress: 12 fault-free rounds (each: everything delivered, >= 95 virtual seconds, reconnect when down) without both
            # ends ACTIVE on an idle link.  No wall clock is involved.
            key = classify(s, [("no-quiescence-within-bound", "")], wit)
            acc.violation(key, f"12 fault-free rounds after the last break the session is still not ACTIVE/ACTIVE and idle: {s.state()}; " + "; ".join(f"{k}: {d}" for k, d in problems[:3]), wit, cid)
            return True
        acc.add("histories_not_judged_no_quiescence")
        return False
    acc.oracle("quiescent-comparison")
    problems, wit = final_oracle(acc, s, how, cid)
    if problems:
        acc.violation(classify(s, problems, wit), "; ".join(p[1] for p in problems)[:600], wit, cid)
    return True


# ------------------------------------------------------------------ exhaustive part
ALPHA = ["sI", "sA", "dI", "dA", "brk", "conn"]


def enabled(s, sends, breaks, max_sends=2, max_breaks=2):
    w = s.w
    up = bool(w.link and w.link.up)
    out = []
    if sends["I"] < max_sends:
        out.append("sI")
    if sends["A"] < max_sends:
        out.append("sA")
    if up and w.in_flight("I"):
        out.append("dI")
    if up and w.in_flight("A"):
        out.append("dA")
    if up and breaks < max_breaks:
        out.append("brk")
    if not w.connected("I"):
        out.append("conn")
    return out


async def exhaustive(acc, clock, spec):
    """DFS over action sequences by stateless re-execution, pruned by (state hash, remaining depth)."""
    depth = spec["exh_depth"]
    shard, ns = spec["shard"], spec["nshards"]
    stack = [()]
    if acc.only_case is not None:
        stack = [tuple(x for x in acc.only_case[4:].split(".") if x)]
        depth = 0
    visited = set()
    runs = 0
    SPLIT = 3
    while stack:
        pre = stack.pop()
        cid = "exh:" + ".".join(pre)
        if acc.only_case is None and len(pre) >= SPLIT and hash_prefix(pre[:SPLIT]) % ns != shard:
            continue          # that subtree belongs to another shard
        sends = {"I": 0, "A": 0}
        nbreaks = 0
        en_at_end = []

        def fn(s, step, pre=pre):
            nonlocal nbreaks
            if step >= len(pre):
                return None
            a = pre[step]
            if a == "sI":
                sends["I"] += 1
                return ("send", "I")
            if a == "sA":
                sends["A"] += 1
                return ("send", "A")
            if a == "dI":
                return ("deliver", "I")
            if a == "dA":
                return ("deliver", "A")
            if a == "brk":
                nbreaks += 1
                return ("break", "eof", "eof")
            return ("reconnect",)

        # run the prefix, look at the state, decide on children, then quiesce + judge (only leaves and every prefix are judged:
        # every prefix is a complete history followed by the forced recovery)
        s, how = await run_history_with_peek(acc, clock, fn, cid, lambda ss: en_at_end.extend(enabled(ss, sends, nbreaks)) or ss.state())
        runs += 1
        if how == "setup":
            acc.add("setup_failed")
            continue
        mine = len(pre) >= SPLIT or (hash_prefix(pre) % ns) == shard or acc.only_case is not None
        if mine:
            acc.case_disjoint(nontrivial=s.breaks_with_traffic > 0)
            acc.oracle("exhaustive-sequences")
            if s.breaks_with_traffic:
                acc.oracle("breaks-with-traffic-in-flight")
            judge(acc, s, how, cid)
        if len(pre) < depth:
            key = (s.peek_state, tuple(sorted(sends.items())), nbreaks, depth - len(pre), tuple(s.accepted["I"]), tuple(s.accepted["A"]))
            if key in visited:
                acc.add("exhaustive_pruned_by_state_hash")
                continue
            visited.add(key)
            for a in reversed(en_at_end):
                stack.append(pre + (a,))
    acc.add("exhaustive_runs", runs)


def hash_prefix(pre):
    h = 0
    for a in pre:
        h = (h * 7 + ALPHA.index(a) + 1) % 1000003
    return h


async def run_history_with_peek(acc, clock, fn, cid, peek):
    """run_history, but call peek(sess) after the last action and before the forced recovery"""
    done = {"v": False}

    def fn2(s, step):
        a = fn(s, step)
        if a is None and not done["v"]:
            done["v"] = True
            s.peek_state = peek(s)
        return a
    s, how = await run_history(acc, clock, fn2, cid, exhaustive=True)
    if not done["v"]:
        s.peek_state = None
    return s, how


# ------------------------------------------------------------------ random part
def random_actions(rnd, maxbreaks):
    n = rnd.randrange(30, 111)
    hostile = rnd.random() < 0.35       # allow read faults that are not ConnectionError

    def fn(s, step):
        if step >= n:
            return None
        w = s.w
        up = bool(w.link and w.link.up)
        acts = []
        acts += [("send", "I")] * 3 + [("send", "A")] * 3
        if up and w.in_flight("I"):
            acts += [("deliver", "I")] * 6
        if up and w.in_flight("A"):
            acts += [("deliver", "A")] * 6
        if up and s.breaks < maxbreaks:
            acts += ["BREAK"] * (2 if s.unacked() else 1)
        if not w.connected("I"):
            acts += [("reconnect",)] * 4
        acts += [("time", rnd.choice([0.5, 1, 5, 12, 31, 45]))]
        if s.acker and up:
            for side in "IA":
                if w.in_flight(side):
                    acts += [("deliver_dying", side)] * 2
        a = rnd.choice(acts)
        if a == "BREAK":
            kinds = READ_FAULTS if hostile else ["eof", "eof", "reset", "pipe", "silent"]
            kI, kA = rnd.choice(kinds), rnd.choice(kinds)
            dI = rnd.choice([None, None, ConnectionResetError("reset"), BrokenPipeError("pipe")])
            dA = rnd.choice([None, None, ConnectionResetError("reset"), BrokenPipeError("pipe")])
            # a third of the breaks cut the frame that was next in flight in two: its head still arrives
            partial = None
            if rnd.random() < 0.35:
                sides = [x for x in "IA" if w.in_flight(x)]
                if sides:
                    partial = (rnd.choice(sides), rnd.choice([0.1, 0.3, 0.5, 0.8, 0.97]))
            return ("break", kI, kA, dI, dA, partial)
        return a
    return fn


def run_shard(spec, acc):
    from asyncfix.connection import AsyncFIXConnection as C
    from vf.core.reach import Reach
    from vf.sim import vclock
    acc.reach_obj = Reach({"_process_logon": C._process_logon, "_check_seqnum_gaps": C._check_seqnum_gaps, "_process_resend": C._process_resend,
                           "socket_read_task": C.socket_read_task, "disconnect": C.disconnect}).start()
    shard = spec["shard"]

    async def go(clock):
        if acc.only_case is None or acc.only_case.startswith("exh:"):
            await exhaustive(acc, clock, spec)
        # bursts: more messages outstanding across one break than any batch size a replay might use
        bursts = [(side, n_) for n_ in ((300,) if spec["tier"] == "quick" else (257, 300, 520, 1030)) for side in "IA"]
        for bi, (side, n_) in enumerate(bursts):
            cid = f"burst:{side}:{n_}"
            if bi % spec["nshards"] != shard or not acc.want(cid):
                continue
            script = [("send", "A" if side == "I" else "I"), ("deliver", side), ("burst", side, n_), ("break", "eof", "eof"), ("reconnect",)]

            def fnb(s_, step, script=script):
                return script[step] if step < len(script) else None
            s, how = await run_history(acc, clock, fnb, cid)
            acc.case_disjoint(nontrivial=True)
            acc.oracle("breaks-with-traffic-in-flight")
            acc.add("burst_histories")
            judge(acc, s, how, cid)
        for c in range(spec["nrand"]):
            cid = f"w:{shard}:{c}"
            if not acc.want(cid):
                continue
            rnd = random.Random(f"{spec['seed']}:C07:{shard}:{c}")
            fn = random_actions(rnd, maxbreaks=rnd.choice([1, 2, 2, 3, 5]))
            s, how = await run_history(acc, clock, fn, cid, ackers=rnd.random() < 0.35, concurrent=rnd.random() < 0.35, shared_journal=rnd.random() < 0.3)
            acc.case(tuple(s.trace), nontrivial=s.breaks_with_traffic > 0)
            if s.breaks_with_traffic:
                acc.oracle("breaks-with-traffic-in-flight")
            acc.add("breaks", s.breaks)
            acc.add("breaks_with_traffic_in_flight_or_unacknowledged", s.breaks_with_traffic)
            acc.add("sends_accepted", len(s.accepted["I"]) + len(s.accepted["A"]))
            acc.add("sends_refused", s.refused)
            acc.add("sends_open", len(s.open_ids["I"]) + len(s.open_ids["A"]))
            acc.add("reconnects", s.w.connects - 1)
            acc.add("histories_with_applications_replying_from_on_message", 1 if s.acker else 0)
            acc.add("connections_dying_under_a_handlers_reply", s.dying)
            acc.add("new_messages_sent_by_another_task_during_a_retransmission", s.concurrent_sends)
            acc.add("histories_with_both_sessions_in_one_journal", 1 if s.shared_journal else 0)
            acc.add("breaks_in_the_middle_of_a_frame", s.w.partial_frames_delivered)
            judge(acc, s, how, cid)
            if c < 2:
                acc.sample({"trace": s.trace[:40], "end": how}, 2)
    vclock.run(go)
    acc.reach_obj.stop()
