"""C08  The journal survives a process crash at any point (fault enumeration over every SQL / commit boundary).

For a generated operation sequence on a file-backed Journaler a dry run numbers every boundary
(before/after each execute, before/after each commit).  Then, for EVERY boundary, a forked child
re-runs the sequence on a fresh file and dies there with os._exit(77) (real process death, no
finalizers, no close).  The parent re-opens the file with a fresh Journaler and compares what it
can read through the public API with a dict model: the state must be exactly the model state
before or after the operation in flight.  Normal endings (del, interpreter exit in a real
subprocess, completed-then-killed) must give the final model state.
"""
import gc
import json
import os
import random
import shutil
import signal
import subprocess
import sys
import tempfile

from vf.ref import fixwire

META = {
    "level": "fault_enumeration",
    "rule": ("operation sequences of 3-9 operations over {create_or_load of 2-3 sessions incl. a mirror CompID pair, persist_msg inbound/outbound "
             "(fresh, duplicate, out of order, binary payload), set_seq_num (out / in / both / inherited, up and down), reset to 1/1} on a "
             "file-backed journal; EVERY boundary (before/after each SQL execute, before/after each commit, constructor included) is one "
             "forked child that dies there by os._exit; the re-opened file is read through sessions / create_or_load / recover_messages / "
             "get_all_msgs and must equal the model state before or after the operation in flight; plus three normal endings per sequence; "
             "distinct = (sequence, boundary); non-trivial = boundary inside an operation that changes state"),
    "assumptions": ["process death, not power loss: SQLite's rollback journal and the OS page cache are trusted, as the property says",
                    "numbers < 2^63; the operation sequences only contain calls whose non-crash behaviour C13 already judges"],
}
REQUIRED_ORACLES = ["crash-point-state", "normal-close-state", "reopen-usable", "real-process-death", "emulation-agrees-with-real-death"]
REQUIRED_COUNTERS = ["renumberings_of_a_journal_with_more_than_1000_rows", "renumberings_of_a_journal_larger_than_the_page_cache"]
NSHARDS = 16
N = {"quick": 60, "thorough": 1500}
NSUB = {"quick": 2, "thorough": 10}     # sequences per shard that also get the real-subprocess "interpreter exit" ending
NFORK = {"quick": 1, "thorough": 25}    # sequences per shard whose every boundary is ALSO a forked child dying by os._exit (fork is
                                        # serialised machine-wide in this sandbox: ~60 forks/s whatever the parallelism)
SHARD_TIMEOUT = {"quick": 900, "thorough": 7200}
SESS = [("T", "S"), ("S", "T"), ("T", "S2")]


def plan(tier, seed):
    return [{"shard": i, "nshards": NSHARDS, "tier": tier, "n": N[tier], "nsub": NSUB[tier], "nfork": NFORK[tier] if (tier != "quick" or i < 8) else 0} for i in range(NSHARDS)]


# ------------------------------------------------------------------ operation sequences + model
def payload(rnd, seq, tag):
    k = rnd.random()
    if k < 0.6:
        return fixwire.msg("D", seq, "S", "T", [(11, f"{tag}"), (58, "x" * rnd.randrange(0, 40))])
    if k < 0.8:
        return b"8=FIX.4.4\x019=5\x0135=0\x0134=%d\x01" % seq + bytes(rnd.randrange(256) for _ in range(rnd.randrange(0, 30))) + b"\x0110=000\x01"
    return b"\x0134=%d\x01" % seq + b"\x00\xff" * rnd.randrange(0, 5)


def gen_ops(rnd):
    """list of JSON-able ops.  Sessions are referred to by index into SESS."""
    nsess = rnd.choice([1, 2, 2, 3])
    ops = [["load", 0]]
    loaded = {0}
    nxt = {}       # (sess, dir) -> a plausible next number, only to steer generation
    n = rnd.randrange(3, 10)
    for k in range(n):
        r = rnd.random()
        s = rnd.randrange(nsess)
        if s not in loaded or r < 0.08:
            ops.append(["load", s])
            loaded.add(s)
            continue
        if r < 0.6:
            d = rnd.choice([0, 1])   # MessageDirection values (INBOUND=0, OUTBOUND=1; checked against the enum at run time)
            cur = nxt.get((s, d), 1)
            m = rnd.random()
            if m < 0.65:
                seq = cur
            elif m < 0.8:
                seq = max(1, cur - rnd.randrange(1, 3))      # duplicate / out of order
            else:
                seq = cur + rnd.randrange(1, 5)              # sparse
            ops.append(["persist", s, d, seq, payload(rnd, seq, f"m{k}").hex()])
            nxt[(s, d)] = seq + 1
        elif r < 0.9:
            mode = rnd.choice(["out", "in", "both", "none"])
            o = i = None
            if mode in ("out", "both"):
                o = max(1, nxt.get((s, 1), 1) + rnd.choice([-3, -1, 0, 2, 10]))
            if mode in ("in", "both"):
                i = max(1, nxt.get((s, 0), 1) + rnd.choice([-3, -1, 0, 2, 10]))
            ops.append(["set", s, o, i])
            if o is not None:
                nxt[(s, 1)] = o
            if i is not None:
                nxt[(s, 0)] = i
        else:
            ops.append(["set", s, 1, 1])
            nxt[(s, 1)] = nxt[(s, 0)] = 1
    return ops


class Model:
    """stored: sess -> [out, in, {(dir, seq): bytes}] ; obj: sess -> [out, in] (the FIXSession object the caller holds)"""

    def __init__(self):
        self.stored = {}
        self.obj = {}

    def apply(self, op, dirs):
        """returns expected exception name or None"""
        k = op[0]
        if k == "load":
            s = op[1]
            if s not in self.stored:
                self.stored[s] = [1, 1, {}]
            self.obj[s] = [self.stored[s][0], self.stored[s][1]]
        elif k == "persist":
            _, s, d, seq, hx = op
            st = self.stored[s]
            if (d, seq) in st[2]:
                return "DuplicateSeqNoError"
            st[2][(d, seq)] = bytes.fromhex(hx)
            if d == dirs["out"]:
                st[0] = seq + 1
            else:
                st[1] = seq + 1
        elif k == "set":
            _, s, o, i = op
            if o is None:
                o = self.obj[s][0]
            if i is None:
                i = self.obj[s][1]
            self.obj[s] = [o, i]
            st = self.stored[s]
            st[0], st[1] = o, i
            st[2] = {(d, q): b for (d, q), b in st[2].items() if not ((d == dirs["out"] and q >= o) or (d == dirs["in"] and q >= i))}
        return None

    def canon(self):
        return {str(s): [st[0], st[1], sorted((d, q, b.hex()) for (d, q), b in st[2].items())] for s, st in sorted(self.stored.items())}


def dirs_map():
    from asyncfix.message import MessageDirection as D
    return {"out": D.OUTBOUND.value, "in": D.INBOUND.value}


def run_ops(path, ops, on_op=None):
    """Execute ops with the real Journaler on `path`.  Returns (journaler, sessions dict).  Raises on unexpected behaviour."""
    from asyncfix.errors import DuplicateSeqNoError
    from asyncfix.journaler import Journaler
    from asyncfix.message import MessageDirection as D
    if on_op:
        on_op(-1)
    j = Journaler(path)
    objs = {}
    for idx, op in enumerate(ops):
        if on_op:
            on_op(idx)
        k = op[0]
        if k == "load":
            t, s = SESS[op[1]]
            objs[op[1]] = j.create_or_load(t, s)
        elif k == "persist":
            try:
                j.persist_msg(bytes.fromhex(op[4]), objs[op[1]], D(op[2]))
            except DuplicateSeqNoError:
                pass
        elif k == "set":
            kw = {}
            if op[2] is not None:
                kw["next_num_out"] = op[2]
            if op[3] is not None:
                kw["next_num_in"] = op[3]
            j.set_seq_num(objs[op[1]], **kw)
    if on_op:
        on_op(len(ops))
    return j, objs


def read_back(path):
    """State of the file as a *fresh* Journaler reports it through the public API (canonical form as Model.canon)."""
    from asyncfix.journaler import Journaler
    from asyncfix.message import MessageDirection as D
    j = Journaler(path)
    try:
        out = {}
        existing = j.sessions()
        allm = j.get_all_msgs()
        for idx, (t, s) in enumerate(SESS):
            if (t, s) not in existing:
                continue
            so = j.create_or_load(t, s)
            via_sessions = existing[(t, s)]
            rows = []
            for d in (D.INBOUND, D.OUTBOUND):
                got = j.recover_messages(so, d, 0, sys.maxsize)
                for b in got:
                    rows.append((d.value, j.find_seq_no(b) if b"\x0134=" in b else -1, b.hex()))
            # get_all_msgs must agree with recover_messages
            viaall = sorted((d, q, m.hex()) for (q, m, d, sk) in allm if sk == so.key)
            rows.sort()
            if viaall != rows:
                out[str(idx)] = ["get_all_msgs-disagrees", viaall, rows]
                continue
            if (via_sessions.next_num_out, via_sessions.next_num_in) != (so.next_num_out, so.next_num_in):
                out[str(idx)] = ["sessions()-disagrees", via_sessions.next_num_out, via_sessions.next_num_in, so.next_num_out, so.next_num_in]
                continue
            out[str(idx)] = [so.next_num_out, so.next_num_in, rows]
        extra = [k for k in existing if k not in SESS]
        if extra:
            out["extra-sessions"] = extra
        return out
    finally:
        del j      # Journaler.__del__ closes cursor and connection


def classify(observed, states, i, ops, dirs):
    """observed matches neither states[i] (before op in flight) nor states[i+1].  Name the mechanism."""
    for j in range(i - 1, -1, -1):
        if observed == states[j]:
            # states[j] = after ops[:j]; the completed operations that were lost are the state-changing ones among ops[j:i]
            kinds = sorted({ops[k][0] for k in range(j, i) if states[k] != states[k + 1]})
            return "completed-" + "+".join(kinds) + "-lost"
    # torn state: compare with the state after the op in flight
    want = states[min(i + 1, len(states) - 1)]
    for s in set(observed) | set(want):
        a, b = observed.get(s), want.get(s)
        if a == b:
            continue
        if a is None or b is None or not isinstance(a[0], int):
            return "torn:" + (str(a[0]) if a and not isinstance(a[0], int) else "session-set-differs")
        if a[2] != b[2] and a[:2] == b[:2]:
            return "torn:counter-without-row"
        if a[2] == b[2]:
            return "torn:row-without-counter"
    return "torn:other"


# ------------------------------------------------------------------ shard
def run_shard(spec, acc):
    from asyncfix.journaler import Journaler
    from vf.core.reach import Reach
    from vf.sim import crash
    acc.reach_obj = Reach({"persist_msg": Journaler.persist_msg, "set_seq_num": Journaler.set_seq_num,
                           "create_or_load": Journaler.create_or_load, "Journaler.__init__": Journaler.__init__}).start()
    dirs = dirs_map()
    assert dirs == {"out": 1, "in": 0}, dirs
    shard = spec["shard"]
    base = tempfile.mkdtemp(prefix=f"vf_c08_{os.getpid()}_", dir="/dev/shm" if os.path.isdir("/dev/shm") else None)
    ctl, shim, undo = crash.install()
    ctl.armed = False
    try:
        for c in range(spec["n"]):
            cid = f"s:{shard}:{c}"
            if not acc.want(cid):
                continue
            rnd = random.Random(f"{spec['seed']}:C08:{shard}:{c}")
            ops = gen_ops(rnd)
            one_sequence(acc, ctl, shim, base, ops, dirs, cid, with_subprocess=c < spec["nsub"], with_fork=c < spec["nfork"])
        # a journal with more than a thousand rows per direction, then renumbering / reset: an operation that works through the
        # table in portions must still be applied entirely or not at all
        # (the last two: several megabytes of frames, more than SQLite keeps in its page cache - a renumbering that removes them has to
        #  write pages to the file before it commits, and only the on-disk rollback journal can take them back after a death)
        bigs = [(1100, 40, 1, 1, 0), (2300, 1200, 1, 1, 0), (1500, 30, 700, 10, 0), (900, 20, 1, 1, 7000), (1300, 10, 3, 1, 9000)]
        for bi, (nout, nin, so, si_, fat) in enumerate(bigs):
            cid = f"big:{nout}:{nin}:{so}:{si_}:{fat}"
            if bi % spec["nshards"] != shard or not acc.want(cid) or (spec.get("tier") == "quick" and bi not in (0, 3)):
                continue
            rnd = random.Random(f"{spec['seed']}:C08:big:{bi}")
            ops = [["load", 0], ["load", 1], ["persist", 1, 1, 1, payload(rnd, 1, "other").hex()]]
            for q in range(1, nout + 1):
                if fat:
                    ops.append(["persist", 0, 1, q, fixwire.msg("B", q, "S", "T", [(148, f"o{q}"), (58, "n" * rnd.randrange(fat - 500, fat))]).hex()])
                    continue
                ops.append(["persist", 0, 1, q, payload(rnd, q, "o").hex()])
            for q in range(1, nin + 1):
                ops.append(["persist", 0, 0, q, payload(rnd, q, "i").hex()])
            k0 = len(ops)
            ops.append(["set", 0, so, si_])
            ops.append(["persist", 0, 1, so, payload(rnd, so, "after").hex()])
            one_sequence(acc, ctl, shim, base, ops, dirs, cid, with_subprocess=False, with_fork=bool(fat), kill_from_op=k0)   # fat: real process death (closing a connection in-process rolls back from memory)
            acc.add("renumberings_of_a_journal_larger_than_the_page_cache" if fat else "renumberings_of_a_journal_with_more_than_1000_rows")
    finally:
        undo()
        shutil.rmtree(base, ignore_errors=True)
    acc.reach_obj.stop()


def fresh(base, name):
    p = os.path.join(base, name)
    for x in (p, p + "-journal", p + "-wal", p + "-shm"):
        try:
            os.unlink(x)
        except OSError:
            pass
    return p


def show_ops(ops):
    out = []
    for o in ops:
        if o[0] == "persist":
            out.append(["persist", o[1], "out" if o[2] == dirs_map()["out"] else "in", o[3], f"<{len(o[4]) // 2} bytes>"])
        else:
            out.append(o)
    return out


def one_sequence(acc, ctl, shim, base, ops, dirs, cid, with_subprocess, with_fork, kill_from_op=0):
    from vf.sim import crash
    # model states: states[k] = after ops[:k]
    m = Model()
    states = [m.canon()]
    for op in ops:
        m.apply(op, dirs)
        states.append(m.canon())
    changing = [states[k] != states[k + 1] for k in range(len(ops))]

    # dry run in this process: boundary -> op index
    path = fresh(base, "dry.db")
    cur = {"op": -1}
    marks = []
    ctl.n = 0
    ctl.die_at = None
    ctl.dead = False
    ctl.record = True
    ctl.log = []
    ctl.armed = True
    try:
        def on_op(i):
            cur["op"] = i
            marks.append((i, ctl.n))
        j, _ = run_ops(path, ops, on_op)
    except Exception as e:
        ctl.armed = False
        acc.violation(f"dry-run-raised:{type(e).__name__}", f"{e!r}", {"ops": show_ops(ops)}, cid)
        return
    ctl.armed = False
    ctl.record = False
    nb = ctl.n
    labels = list(ctl.log)
    # op index for each boundary
    starts = {i: b for i, b in marks}
    op_of = []
    order = sorted(starts.items(), key=lambda x: x[1])
    for b in range(nb):
        k = -1
        for i, sb in order:
            if sb <= b:
                k = i
        op_of.append(k)
    # (a) same connection closed normally via del
    del j
    acc.oracle("normal-close-state")
    judge(acc, path, states, ops, dirs, cid, "normal-close:del-in-process", exact_final=True)

    # (b) every boundary: the writer dies there.  Always: in-process death (Kill raised at the boundary, the real connection
    #     closed without commit = what the OS leaves behind, given SQLite's rollback journal is trusted).  For `with_fork`
    #     sequences additionally a forked child that really dies by os._exit at the same boundary; both must agree.
    for b in range(nb):
        i = op_of[b]          # op in flight (-1 = constructor)
        if kill_from_op and i < kill_from_op:
            continue          # (a long journal is built first: only the operations of interest are crash-tested)
        nontrivial = i >= 0 and i < len(ops) and changing[i]
        path = fresh(base, "e.db")
        ctl.n = 0
        ctl.die_at = b
        ctl.mode = "raise"
        ctl.dead = False
        ctl.armed = True
        nconn = len(shim.conns)
        try:
            run_ops(path, ops)
            died = False
        except crash.Kill:
            died = True
        finally:
            ctl.armed = False
            ctl.die_at = None
        for cx in shim.conns[nconn:]:
            try:
                cx._conn.close()       # no commit: the pending transaction is discarded, as on process death
            except Exception:
                pass
        del shim.conns[nconn:]
        if not died:
            acc.inconclusive(f"{cid}: in-process run did not reach boundary {b}")
            continue
        acc.case_disjoint(nontrivial=nontrivial)
        acc.oracle("crash-point-state")
        acc.addmap("crash_boundary_kinds", labels[b][1])
        obs_e = judge(acc, path, states, ops, dirs, cid, f"crash@{b}:{labels[b][1]}:op{i}", in_flight=(i if i >= 0 else None))
        if not with_fork:
            continue
        path = fresh(base, "c.db")
        pid = os.fork()
        if pid == 0:
            try:
                signal.alarm(20)
                ctl.n = 0
                ctl.die_at = b
                ctl.mode = "exit"
                ctl.armed = True
                run_ops(path, ops)
                os._exit(0)
            except BaseException:
                os._exit(3)
        _, status = os.waitpid(pid, 0)
        code = os.waitstatus_to_exitcode(status)
        if code != 77:
            acc.inconclusive(f"{cid}: child for boundary {b} ended with {code}, expected 77")
            continue
        acc.case_disjoint(nontrivial=nontrivial)
        acc.oracle("crash-point-state")
        acc.oracle("real-process-death")
        obs_f = judge(acc, path, states, ops, dirs, cid, f"os._exit@{b}:{labels[b][1]}:op{i}", in_flight=(i if i >= 0 else None))
        acc.oracle("emulation-agrees-with-real-death")
        if obs_e != obs_f:
            acc.inconclusive(f"{cid}: boundary {b}: in-process death and real process death leave different journals "
                             f"(harness assumption broken): {_short(obs_e) if isinstance(obs_e, dict) else obs_e} vs {_short(obs_f) if isinstance(obs_f, dict) else obs_f}")
    # (c) completed, then killed without close (in-process: connection closed without commit)
    path = fresh(base, "e.db")
    nconn = len(shim.conns)
    jj = run_ops(path, ops)
    for cx in shim.conns[nconn:]:
        cx._conn.close()
    del shim.conns[nconn:]
    del jj
    acc.case_disjoint()
    acc.oracle("crash-point-state")
    judge(acc, path, states, ops, dirs, cid, "killed-after-last-operation", exact_final=True)
    if with_fork:
        path = fresh(base, "c.db")
        pid = os.fork()
        if pid == 0:
            try:
                signal.alarm(20)
                run_ops(path, ops)
                os._exit(0)
            except BaseException:
                os._exit(3)
        _, status = os.waitpid(pid, 0)
        if os.waitstatus_to_exitcode(status) != 0:
            acc.inconclusive(f"{cid}: completed-then-killed child ended with {os.waitstatus_to_exitcode(status)}")
        else:
            acc.case_disjoint()
            acc.oracle("crash-point-state")
            acc.oracle("real-process-death")
            judge(acc, path, states, ops, dirs, cid, "os._exit-after-last-operation", exact_final=True)
        # (d) del in a forked child, then exit
        path = fresh(base, "c.db")
        pid = os.fork()
        if pid == 0:
            try:
                signal.alarm(20)
                j2, objs = run_ops(path, ops)
                del j2, objs
                gc.collect()
                os._exit(0)
            except BaseException:
                os._exit(3)
        _, status = os.waitpid(pid, 0)
        if os.waitstatus_to_exitcode(status) == 0:
            acc.case_disjoint()
            acc.oracle("normal-close-state")
            judge(acc, path, states, ops, dirs, cid, "normal-close:del-in-child", exact_final=True)
        else:
            acc.inconclusive(f"{cid}: del-child ended with {os.waitstatus_to_exitcode(status)}")
    # (e) real interpreter exit in a real subprocess
    if with_subprocess:
        path = fresh(base, "c.db")
        opsf = os.path.join(base, "ops.json")
        with open(opsf, "w") as f:
            json.dump(ops, f)
        env = dict(os.environ)
        p = subprocess.run([sys.executable, "-B", "-c",
                            "import sys, json; from vf.core import repoimport; repoimport.ensure(); from vf.checks import c08; "
                            "j, o = c08.run_ops(sys.argv[1], json.load(open(sys.argv[2])))"
                            , path, opsf], env=env, capture_output=True, text=True, timeout=120)
        if p.returncode != 0:
            acc.inconclusive(f"{cid}: interpreter-exit subprocess rc={p.returncode}: {p.stderr[-300:]}")
        else:
            acc.case_disjoint()
            acc.oracle("normal-close-state")
            acc.add("interpreter_exit_subprocesses")
            judge(acc, path, states, ops, dirs, cid, "normal-close:interpreter-exit", exact_final=True)
    acc.sample({"ops": show_ops(ops), "boundaries": nb, "boundary_labels": [l for _, l in labels][:14]}, 2)
    fresh(base, "c.db")
    fresh(base, "dry.db")
    fresh(base, "e.db")


def judge(acc, path, states, ops, dirs, cid, where, in_flight=None, exact_final=False):
    acc.oracle("reopen-usable")
    try:
        observed = read_back(path)
    except Exception as e:
        acc.violation(f"unusable-after-{'close' if exact_final else 'crash'}:{type(e).__name__}", f"{where}: reopening raised {e!r}",
                      {"ops": show_ops(ops), "where": where}, cid)
        return f"raised {type(e).__name__}"
    if exact_final:
        ok = observed == states[-1]
        i_before = len(states) - 1
    else:
        if in_flight is None:      # constructor in flight
            ok = observed == states[0]
            i_before = 0
        else:
            ok = observed in (states[in_flight], states[in_flight + 1])
            i_before = in_flight
    if ok:
        return observed
    key = classify(observed, states, i_before, ops, dirs)
    if exact_final:
        key = "normal-end:" + key if where.startswith("normal-close") else key
    acc.violation(key, f"{where}: re-opened journal is neither the state before nor after the operation in flight",
                  {"ops": show_ops(ops), "where": where, "op_in_flight": (show_ops(ops)[in_flight] if in_flight is not None and in_flight < len(ops) else None),
                   "observed": _short(observed), "want_before": _short(states[i_before]),
                   "want_after": _short(states[min(i_before + 1, len(states) - 1)])}, cid)
    return observed


def _short(st):
    out = {}
    for k, v in st.items():
        if isinstance(v, list) and len(v) == 3 and isinstance(v[2], list):
            out[k] = [v[0], v[1], [(d, q) for d, q, _ in v[2]]]
        else:
            out[k] = v
    return out
