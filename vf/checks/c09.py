"""C09  Restarting an endpoint is transparent to the session (fault enumeration: graceful stops at every quiescent point,
kills at enumerated points of sending and receiving).

Two real endpoints on the frame-granular link (vf.sim.link) with FILE-backed journals.  A history is run once without
faults to count its quiescent points and its kill points (every SQL statement / commit boundary of the journal while the
endpoint sends or processes a frame, plus transport points: before write(), between write() and drain()); then it is re-run
once per chosen point with the endpoint stopped or killed there.  A kill abandons the endpoint object (tasks cancelled, SQLite
connection closed without commit - C08 shows that this is what process death leaves), its socket closes (the peer reads what
was already written, then EOF).  A new Journaler on the same file and a new connection object take over, reconnect, log on.
"""
import asyncio
import os
import random
import shutil
import sys
import tempfile

from vf.ref import fixwire

META = {
    "level": "fault_enumeration",
    "rule": ("histories of 4-16 steps (application traffic both ways with unique ids, partial delivery, lost frames that force ResendRequests and "
             "multi-number gap fills, SequenceReset-Reset, reset_seq_num, time passing) on two real endpoints with file journals; for each history: "
             "(1) at EVERY quiescent point a second Journaler on the file + a new connection object must report the live counters; (2) graceful "
             "restart (with and without Logout) of either side at every k-th quiescent point, (3) kill of either side at EVERY enumerated kill "
             "point of a window of the history (quick: every 2nd point) - SQL/commit boundaries, before write, between write and drain; then "
             "reconnect, Logon, delivery of everything: received == accepted in order (the operation in flight at a kill stays open), no "
             "outbound MsgSeqNum reused for a different message (per identity, over all incarnations, from the transport taps), no ResendRequest "
             "after a restart at a point where nothing was in flight and nothing was lost; distinct = (history, restart point); non-trivial = all"),
    "assumptions": ["a kill is process death, not power loss (C08's assumption); the dead endpoint's socket closes: the peer reads what was written, then EOF",
                    "the message being sent or processed at the moment of a kill is 'open': it may be delivered at most once per incarnation",
                    "bounded recovery as in C07 (12 rounds)"],
}
REQUIRED_ORACLES = ["counter-agreement", "continuity", "no-number-reuse", "no-spurious-resend", "kill-points"]
REQUIRED_COUNTERS = ["receivers_stopped_while_their_handler_was_suspended", "original_transmissions_with_explicit_possdup_n", "sends_cut_by_a_lost_connection", "interval_heartbeats_sent_by_an_idle_peer"]
NSHARDS = 16
NHIST = {"quick": 10, "thorough": 150}
KILL_STRIDE = {"quick": 2, "thorough": 1}
SHARD_TIMEOUT = {"quick": 900, "thorough": 7200}
HB = 30


def plan(tier, seed):
    return [{"shard": i, "nshards": NSHARDS, "nhist": NHIST[tier], "stride": KILL_STRIDE[tier]} for i in range(NSHARDS)]


class Dead(Exception):
    pass


class Sess:
    def __init__(self, clock, base, ctl, shim):
        from vf.sim.link import World
        self.clock, self.base, self.ctl, self.shim = clock, base, ctl, shim
        self.files = {"I": os.path.join(base, "I.db"), "A": os.path.join(base, "A.db")}
        for f in self.files.values():
            for x in (f, f + "-journal"):
                if os.path.exists(x):
                    os.unlink(x)
        self.j = {}
        self.inc = {"I": 0, "A": 0}
        self.rx = {"I": [[]], "A": [[]]}          # per incarnation
        self.accepted = {"I": [], "A": []}
        self.open_ids = {"I": set(), "A": set()}
        self.cnt = 0
        self.trace = []
        self.kill_side = None
        self.logon_errors = []
        self.epoch_marks = {"I": [], "A": []}     # tap positions at which numbering restarted at 1 by agreement (reset_seq_num)
        self.w = World(clock, lambda: self.mk("I"), lambda: self.mk("A"))
        self.w.writer_hook = self.add_transport_kill_points

    def mk(self, side):
        from asyncfix import FIXMessage, Journaler
        from vf.sim import endpoint as E
        self.j[side] = Journaler(self.files[side])
        if side == "I":
            ep = E.new_endpoint("client", "INIT", "ACC", self.j[side], hb=HB, name="I")

            async def on_connect():
                try:
                    await ep.send_msg(FIXMessage("A", {98: 0, 108: HB}))
                except Exception as e:
                    ep.ev.append(("logon-send-raised", type(e).__name__))
                    self.logon_errors.append(type(e).__name__)
            ep.vf_hooks["on_connect"] = on_connect
        else:
            ep = E.new_endpoint("server", "ACC", "INIT", self.j[side], hb=HB, name="A")
        ep.rx = self.rx[side][-1]

        async def on_message(msg, ep=ep):
            # an application that closes the session from inside its message handler ("market closed"): the message it was
            # handed has been received, restart or not
            if str(msg.get(11, "")).startswith("stop"):
                from asyncfix.connection import ConnectionState as CS
                await ep.disconnect(CS.DISCONNECTED_WCONN_TODAY, logout_message="closing")
            # an application that books the message and then waits for something else (a database, a downstream system)
            if str(msg.get(11, "")).startswith("slow"):
                import asyncio
                await asyncio.sleep(5)
        ep.vf_hooks["on_message"] = on_message
        return ep

    def add_transport_kill_points(self, side, w):
        """kill points of the send path that are not SQL boundaries: before write() (bytes never handed over) and between
        write() and drain()"""
        ctl = self.ctl
        orig_write = w.write
        ep_name = side

        def write(data):
            ctl.boundary("before transport write", side=ep_name)
            orig_write(data)
        w.write = write
        orig_hook = w.drain_hook

        async def drain_hook():
            ctl.boundary("between write and drain", side=ep_name)
            if orig_hook is not None:
                await orig_hook()
        w.drain_hook = drain_hook

    async def start(self):
        from vf.sim.net import install_open_connection, settle
        self.undo = install_open_connection(self.w.open)
        await self.w.start_tasks()
        await self.w.ep["I"].connect()
        await settle()

    async def pump(self, limit=300):
        n = 0
        while n < limit and not self.ctl.dead and (self.w.in_flight("I") or self.w.in_flight("A")):
            for s in "AI":
                if self.w.in_flight(s) and not self.ctl.dead:
                    await self.w.deliver(s)
                    n += 1
        return n < limit

    explicit_n = 0
    slow_stops = 0
    sends_cut_by_a_lost_connection = 0
    interval_heartbeats = 0

    async def send(self, side, prefix=""):
        from asyncfix import FIXMessage
        from asyncfix.errors import FIXConnectionError
        from vf.sim.crash import Kill
        from vf.sim.net import settle
        self.cnt += 1
        ident = f"{prefix}{side.lower()}{self.cnt}"
        try:
            body = {11: ident, 55: "X"}
            if (self.cnt * 7 + len(ident)) % 5 == 0:
                body[43] = "N"          # an original transmission saying so explicitly: still a new number
                self.explicit_n += 1
            await self.w.ep[side].send_msg(FIXMessage("D", body))
            self.accepted[side].append(ident)
            r = "ok"
        except FIXConnectionError:
            r = "refused"
        except Kill:
            self.open_ids[side].add(ident)
            r = "killed"
        except Exception as e:
            self.open_ids[side].add(ident)
            r = f"open:{type(e).__name__}"
        await settle()
        return ident, r

    # ---- restart machinery
    async def stop_endpoint(self, side, mode):
        """mode: 'graceful' | 'logout' | 'kill'"""
        from asyncfix.connection import ConnectionState as CS
        from vf.sim import endpoint as E
        from vf.sim.link import EOF
        from vf.sim.net import settle
        ep = self.w.ep[side]
        link = self.w.link
        other = "A" if side == "I" else "I"
        if mode == "logout" and ep.connection_state > CS.DISCONNECTED_BROKEN_CONN:
            await ep.disconnect(CS.DISCONNECTED_WCONN_TODAY, logout_message="restart")
            await settle()
        E.stop_tasks(ep)
        if mode != "kill":
            await settle()          # an orderly stop lets the cancelled tasks unwind (their finally blocks run) before the process ends
        # the process is gone: its socket closes (what it wrote is still delivered, then EOF); frames towards it are lost
        if link is not None and link.up:
            w = link.writer.get(side)
            if w is not None and not w.closed:
                w.on_close = None
                w.closed = True
                link.q[other].append(EOF)
            link.q[side].clear()
            link.notified[side] = True
        # its journal connection dies with it: nothing is committed on the way out
        close_journal(self.j[side])
        ep.vf_dead = True
        await settle()

    async def start_endpoint(self, side):
        from asyncfix.connection import AsyncFIXConnection
        from vf.sim.net import advance
        self.inc[side] += 1
        self.rx[side].append([])
        ep = self.mk(side)
        ep.vf_tap = self.w.tap[side]
        self.w.ep[side] = ep
        if side == "A":
            await AsyncFIXConnection.connect(ep)
        return ep

    def counters_of_new_object(self, side):
        """what a new connection object over a second Journaler on the same file would start with"""
        from asyncfix.journaler import Journaler
        from asyncfix.connection import AsyncFIXConnection
        from asyncfix.protocol import FIXProtocol44
        j2 = Journaler(self.files[side])
        real = j2.conn._conn if hasattr(j2.conn, "_conn") else j2.conn
        try:
            real.execute("PRAGMA busy_timeout = 0")
            ids = ("INIT", "ACC") if side == "I" else ("ACC", "INIT")
            c = AsyncFIXConnection(FIXProtocol44(), ids[0], ids[1], j2, "mem", 1)
            return c._session.next_num_in, c._session.next_num_out
        finally:
            # release the file at once: create_or_load's refused INSERT leaves a transaction (and its lock) open, and the
            # connection object may be kept alive by reference cycles until the next GC pass
            close_journal(j2)

    def all_rx(self, side):
        return [r[1] for inc in self.rx[side] for r in inc]

    def stop(self):
        self.w.stop()
        self.undo()
        for side in "IA":
            close_journal(self.j[side])


def close_journal(jr):
    """what process death does to a journal connection: no commit, every lock released.  The cursor has to go first: a SELECT that
    was not read to its end (create_or_load reads one row) keeps a shared lock alive even after connection.close()."""
    for obj in (jr.cursor, jr.conn):
        try:
            real = getattr(obj, "_c", None) or getattr(obj, "_conn", None) or obj
            real.close()
        except Exception:
            pass


def gen_history(rnd):
    """list of abstract steps; restarts are inserted by the driver"""
    n = rnd.randrange(4, 17)
    steps = []
    for _ in range(n):
        r = rnd.random()
        if r < 0.03:
            steps.append(("send_stop", rnd.choice("IA")))     # the receiver's application closes the session inside on_message
        elif r < 0.06:
            steps.append(("send_slow_stop", rnd.choice("IA")))    # the receiver is stopped (tasks cancelled) while its handler is still awaiting
        elif r < 0.10:
            steps.append(("send_dying", rnd.choice("IA")))        # the connection is lost exactly under the drain() of a send
        elif r < 0.15:
            steps.append(("send_hb", rnd.choice("IA"), rnd.choice([1, 1, 2])))   # interval Heartbeats, as other engines send them when idle
        elif r < 0.34:
            steps.append(("send", rnd.choice("IA")))
        elif r < 0.7:
            steps.append(("deliver", rnd.choice("IA"), rnd.randrange(1, 4)))
        elif r < 0.78:
            steps.append(("break",))                          # frames are only ever lost the way TCP loses them: the connection breaks
        elif r < 0.84:
            steps.append(("pump",))
        elif r < 0.9:
            steps.append(("time", rnd.choice([1, 12, 31])))
        elif r < 0.94:
            steps.append(("seqreset", rnd.choice("IA"), rnd.choice([2, 5])))
        elif r < 0.97:
            steps.append(("reset_seq_num",))
        else:
            steps.append(("break",))
    return steps


async def do_step(s, st):
    from asyncfix import FIXMessage
    from vf.sim.net import advance, settle
    k = st[0]
    w = s.w
    if k == "send":
        ident, r = await s.send(st[1])
        s.trace.append(f"send{st[1]}:{ident}:{r}")
    elif k == "send_hb":
        # this library probes an idle line with TestRequests; most engines send Heartbeat(35=0) without TestReqID every HeartBtInt
        ok = 0
        for _ in range(st[2]):
            try:
                if not s.ctl.dead:
                    await w.ep[st[1]].send_msg(FIXMessage("0"))
                    ok += 1
            except Exception:
                pass
        s.interval_heartbeats += ok
        s.trace.append(f"send_hb{st[1]}x{ok}")
    elif k == "send_stop":
        if quiescent(s):
            ident, r = await s.send(st[1], prefix="stop")
            await s.pump()
            s.trace.append(f"send_stop{st[1]}:{ident}:{r}")
            if not s.ctl.dead:
                await recover_link(s)
    elif k == "send_slow_stop":
        if quiescent(s):
            other = "A" if st[1] == "I" else "I"
            ident, r = await s.send(st[1], prefix="slow")
            if r == "ok" and not s.ctl.dead:
                await w.deliver(other)                  # the handler has the message and is suspended
                handed = ident in s.all_rx(other)
                await s.stop_endpoint(other, "graceful")     # the process is stopped: its tasks are cancelled inside the handler
                await s.start_endpoint(other)
                s.slow_stops += 1 if handed else 0
                s.trace.append(f"send_slow_stop{st[1]}:{ident}:handler-cancelled={handed}")
                await recover_link(s)
    elif k == "deliver":
        for _ in range(st[2]):
            if s.ctl.dead or not await w.deliver(st[1]):
                break
        s.trace.append(f"deliver{st[1]}x{st[2]}")
    elif k == "lose":
        link = w.link
        if link is not None and link.up and link.q[st[1]] and isinstance(link.q[st[1]][0], bytes) and b"\x0135=A\x01" not in link.q[st[1]][0]:
            link.q[st[1]].pop(0)
            s.trace.append(f"lose->{st[1]}")
    elif k == "pump":
        await s.pump()
        s.trace.append("pump")
    elif k == "time":
        await advance(st[1])
        s.trace.append(f"time+{st[1]}")
    elif k == "seqreset":
        # the application announces a jump of its own outbound numbering (Reset mode), as the library's API allows
        ep = w.ep[st[1]]
        other = w.ep["A" if st[1] == "I" else "I"]
        if not quiescent(s) or ep._session.next_num_out != other._session.next_num_in:
            return            # announcing a jump while own messages are unacknowledged abandons them by definition: not a restart question
        try:
            new = ep._session.next_num_out + st[2]
            await ep.send_msg(FIXMessage("4", {34: ep._session.next_num_out, 36: new}))
            ep._journaler.set_seq_num(ep._session, next_num_out=new)
            s.trace.append(f"seqreset{st[1]}->{new}")
        except Exception as e:
            s.trace.append(f"seqreset{st[1]}:{type(e).__name__}")
        await settle()
    elif k == "reset_seq_num":
        # both sides agree to restart numbering at 1 (only when nothing is in flight)
        I_, A_ = w.ep["I"]._session, w.ep["A"]._session
        if (not w.in_flight("I") and not w.in_flight("A") and quiescent(s)
                and I_.next_num_out == A_.next_num_in and A_.next_num_out == I_.next_num_in):      # nothing lost, nothing pending
            for side in "IA":
                await w.ep[side].reset_seq_num()
                s.epoch_marks[side].append(len(w.tap[side]))
            s.trace.append("reset_seq_num(both)")
    elif k == "break":
        # every third break cuts the frame that was next in flight in two (its head still arrives)
        partial = None
        sides = [x for x in "IA" if w.in_flight(x)]
        if sides and (len(s.trace) % 3 == 0):
            partial = (sides[len(s.trace) % len(sides)], (0.2, 0.5, 0.9)[len(s.trace) % 3])
        await w.break_("eof", "eof", partial=partial)
        s.trace.append("break" + (f":mid-frame->{partial[0]}@{partial[1]}" if partial else ""))
        await recover_link(s)
    elif k == "send_dying":
        # the connection is lost exactly under a send: write() took the bytes, drain() raises.  Whether the peer got them nobody knows;
        # the number is spent either way
        if w.link is not None and w.link.up and not s.ctl.dead:
            w.drain_once[st[1]] = ConnectionResetError("Connection lost")
            ident, r = await s.send(st[1])
            w.drain_once[st[1]] = None
            s.sends_cut_by_a_lost_connection += 1 if r.startswith("open") else 0
            s.trace.append(f"send_dying{st[1]}:{ident}:{r}")
            if not s.ctl.dead:
                await w.break_("eof", "eof")
                await recover_link(s)


async def recover_link(s):
    from vf.sim.net import advance
    if not s.w.connected("I"):
        await advance(1.1)
        if not s.w.connected("I"):
            try:
                await s.w.ep["I"].connect()
            except Exception:
                pass
        await advance(1.1)


def quiescent(s):
    from asyncfix.connection import ConnectionState as CS
    w = s.w
    return bool(w.link and w.link.up and not w.in_flight("I") and not w.in_flight("A")
                and w.ep["I"].connection_state == CS.ACTIVE and w.ep["A"].connection_state == CS.ACTIVE)


async def final_recovery(s):
    from asyncfix.connection import ConnectionState as CS
    from vf.sim.net import advance
    w = s.w
    for _ in range(12):
        if not await s.pump():
            return "pump-limit"
        I, A = w.ep["I"], w.ep["A"]
        if quiescent(s):
            # let heartbeat intervals pass with every frame delivered: traffic reveals a gap left by a frame lost at the very end
            for _ in range(3):
                await advance(HB + 1)
                if not await s.pump():
                    return "pump-limit"
            if quiescent(s):
                return "quiescent"
            continue
        if w.link is not None and not w.link.up:
            for side in "IA":
                await w.notify(side, "eof")
        if not w.connected("I"):
            await recover_link(s)
        else:
            await advance(3 * HB + 5)
    return "bound"


def check_counter_agreement(acc, s, where, cid):
    """(1) counters of a new connection object built on the journal == the live object's, at a quiescent point"""
    for side in "IA":
        acc.oracle("counter-agreement")
        ep = s.w.ep[side]
        live = (ep._session.next_num_in, ep._session.next_num_out)
        try:
            stored = s.counters_of_new_object(side)
        except __import__("sqlite3").OperationalError as e:
            acc.add("counter_agreement_skipped_database_locked")     # the live object holds a write lock: an artefact of looking while it lives
            continue
        except Exception as e:
            acc.violation(f"new-object-raises:{type(e).__name__}", f"{where}: building a connection on the journal raised {e!r}", {"trace": s.trace[-20:]}, cid)
            return False
        if stored != live:
            last = last_inbound_kind(s, side)
            which = ("in" if stored[0] != live[0] else "") + ("out" if stored[1] != live[1] else "")
            key = f"stored-counter-differs:{which}:after-{last}"
            acc.violation(key, f"{where}: side {side}: live (in,out)={live}, a new connection object on the same journal gets {stored}",
                          {"trace": s.trace[-25:], "side": side, "live": live, "restored": stored}, cid)
            return False
    return True


def last_inbound_kind(s, side):
    """type of the last frame journaled inbound by `side` (names the mechanism of a counter disagreement)"""
    from asyncfix.message import MessageDirection as D
    try:
        rows = s.j[side].recover_messages(s.w.ep[side]._session, D.INBOUND, 0, sys.maxsize)
        if rows:
            f = fixwire.parse(rows[-1])
            mt = fixwire.get(f, 35)
            if mt == "4":
                return "gapfill" if fixwire.get(f, 123) == "Y" else "sequence-reset"
            return {"A": "logon", "0": "heartbeat", "1": "testrequest", "2": "resendrequest", "5": "logout"}.get(mt, "application-message")
    except Exception:
        pass
    return "none"


def end_oracle(acc, s, how, cid, restart_info):
    from asyncfix.connection import ConnectionState as CS
    w = s.w
    wit = {"trace": s.trace[-50:], "restart": restart_info, "accepted": s.accepted, "open": {k: sorted(v) for k, v in s.open_ids.items()},
           "rx_A": s.rx["A"], "rx_I": s.rx["I"], "end": how,
           "states": [w.ep["I"].connection_state.name, w.ep["A"].connection_state.name],
           "counters": {x + "_" + y: getattr(w.ep[x]._session, "next_num_" + y) for x in "IA" for y in ("in", "out")},
           "swallowed_I": sorted(set(w.ep["I"].vf_log.exceptions))[-4:], "swallowed_A": sorted(set(w.ep["A"].vf_log.exceptions))[-4:],
           "logon_errors": s.logon_errors}
    acc.add("receivers_stopped_while_their_handler_was_suspended", s.slow_stops)
    acc.add("sends_cut_by_a_lost_connection", s.sends_cut_by_a_lost_connection)
    acc.add("interval_heartbeats_sent_by_an_idle_peer", s.interval_heartbeats)
    acc.add("breaks_in_the_middle_of_a_frame", s.w.partial_frames_delivered)
    acc.add("original_transmissions_with_explicit_possdup_n", s.explicit_n)
    # (3) no reuse of an outbound number for a different message
    acc.oracle("no-number-reuse")
    for side in "IA":
        seen = {}
        epoch = 0
        for pos, b in enumerate(w.tap[side].frames()):
            if pos in s.epoch_marks[side]:
                epoch += 1
            try:
                f = fixwire.parse(b)
            except fixwire.FrameError:
                continue
            if fixwire.get(f, 43) == "Y" or fixwire.get(f, 35) == "4":
                if fixwire.get(f, 35) == "4" and fixwire.get(f, 123) != "Y":
                    epoch += 1          # Reset mode: a new numbering epoch announced to the peer
                continue
            n = int(fixwire.get(f, 34))
            body = [(t, v) for t, v in f if t not in ("8", "9", "10", "52", "34")]
            k = (epoch, n)
            if k in seen and seen[k] != body:
                acc.violation("outbound-number-reused-for-different-message" + (":after-kill" if restart_info.get("mode") == "kill" else ":after-graceful-stop"),
                              f"side {side} sent two different messages numbered {n}: {seen[k][:4]} / {body[:4]} (restart: {restart_info})", wit, cid)
                return
            seen.setdefault(k, body)
    if how != "quiescent":
        acc.addmap("no_quiescence", how)
        acc.violation("session-not-re-established:" + restart_info.get("mode", "none"), f"after the restart the session did not come back to ACTIVE/ACTIVE with an idle link ({how})", wit, cid)
        return
    # (2) continuity
    acc.oracle("continuity")
    for src, dst in (("I", "A"), ("A", "I")):
        rxs = s.rx[dst]
        flat = [r[1] for inc in rxs for r in inc]
        open_ids = s.open_ids[src] | s.open_ids.get("rx:" + dst, set())
        for inc in rxs:
            ids = [r[1] for r in inc]
            for o in open_ids:
                if ids.count(o) > 1:
                    acc.violation("duplicated-within-incarnation", f"{o} delivered {ids.count(o)} times to one incarnation of {dst}", wit, cid)
                    return
        core = [x for x in flat if x not in open_ids]
        want = [x for x in s.accepted[src] if x not in open_ids]
        if core != want:
            dups = sorted({x for x in core if core.count(x) > 1})
            lost = [x for x in want if x not in core]
            kind = "duplicated" if dups else ("lost" if lost else "reordered")
            acc.violation(f"{kind}:after-{restart_info.get('mode', 'none')}-restart-of-{restart_info.get('side')}",
                          f"{dst} received {core}, {src}.send_msg accepted {want} (dups {dups}, lost {lost})", wit, cid)
            return
    I, A = w.ep["I"], w.ep["A"]
    if I._session.next_num_in != A._session.next_num_out or A._session.next_num_in != I._session.next_num_out:
        acc.violation("counters-disagree-after-restart", str(wit["counters"]), wit, cid)
        return
    # (4) no spurious ResendRequest
    if restart_info.get("clean"):
        acc.oracle("no-spurious-resend")
        for side in "IA":
            t0 = restart_info["tap"][side]
            t1 = restart_info.get("tap_end", {}).get(side)
            for b in w.tap[side].frames(t0)[: (None if t1 is None else max(0, t1 - t0))]:
                if b"\x0135=2\x01" in b:
                    acc.violation("spurious-resend-request:after-" + restart_info.get("last_inbound", "?"),
                                  f"restart of {restart_info['side']} ({restart_info['mode']}) at a quiescent point with nothing in flight, yet {side} sent {fixwire.show(b)[:100]}",
                                  wit, cid)
                    return


async def run_one(acc, clock, base, ctl, shim, steps, restart, cid, probe=None):
    """restart: None | {"side","mode","at": quiescent-point index}  | {"side","mode":"kill","kill_at": boundary index, "window": (step_lo, step_hi)}
    probe: dict filled during a fault-free run (quiescent points, kill boundaries per step)"""
    from asyncfix.connection import ConnectionState as CS
    from vf.sim.crash import Kill
    from vf.sim.net import SpinAbort, settle
    s = Sess(clock, base, ctl, shim)
    info = dict(restart or {})
    try:
        ctl.armed = False
        await s.start()
        await s.pump()
        if not quiescent(s):
            return s, "setup", info
        qn = 0
        done_restart = False
        for idx, st in enumerate(steps):
            kill_here = restart is not None and restart.get("mode") == "kill" and restart["step"] == idx and not done_restart
            if kill_here:
                ctl.n = 0
                ctl.die_at = restart["kill_at"]
                ctl.mode = "raise"
                ctl.dead = False
                ctl.dead_side = None
                ctl.only_side = restart["side"]
                ctl.armed = True
            elif probe is not None:
                ctl.n = 0
                ctl.die_at = None
                ctl.record = True
                ctl.log = []
                ctl.armed = True
            try:
                await do_step(s, st)
            except Kill:
                pass                  # the killed endpoint's own call stack unwinds into the harness: that process is gone
            finally:
                if not (kill_here and ctl.dead):
                    ctl.armed = False
                ctl.record = False
            if probe is not None:
                probe["boundaries"].append(list(ctl.log))
            if kill_here:
                done_restart = True
                if not ctl.dead:
                    return s, "kill-point-not-reached", info
                side = restart["side"]
                info.update(clean=False, tap={x: len(s.w.tap[x]) for x in "IA"})
                # a kill inside the reader task: the frame it was processing stays open on the receiving side
                if ctl.dead_in_reader:
                    info["in_reader"] = True
                    fr = s.w.last_delivered.get(side)
                    ids = set()
                    if isinstance(fr, bytes):
                        try:
                            v = fixwire.get(fixwire.parse(fr), 11)
                            if v:
                                ids.add(v)
                        except fixwire.FrameError:
                            pass
                    s.open_ids["rx:" + side] = ids
                await s.stop_endpoint(side, "kill")
                ctl.armed = False
                ctl.dead = False
                await s.start_endpoint(side)
                s.trace.append(f"KILL {side} at boundary {restart['kill_at']} ({ctl.dead_label})")
                await recover_link(s)
                continue
            if quiescent(s):
                if probe is not None or restart is None or True:
                    if not check_counter_agreement(acc, s, f"quiescent point {qn} after step {idx}", cid):
                        return s, "violated", info
                if probe is not None:
                    probe["qpoints"].append(idx)
                if restart is not None and restart.get("mode") in ("graceful", "logout") and restart["at"] == qn and not done_restart:
                    done_restart = True
                    side = restart["side"]
                    I_, A_ = s.w.ep["I"]._session, s.w.ep["A"]._session
                    nothing_lost = I_.next_num_out == A_.next_num_in and A_.next_num_out == I_.next_num_in
                    info.update(clean=nothing_lost, tap={x: len(s.w.tap[x]) for x in "IA"}, last_inbound=last_inbound_kind(s, side))
                    await s.stop_endpoint(side, restart["mode"])
                    if restart["mode"] == "logout":
                        await s.pump()
                        info["tap"] = {x: len(s.w.tap[x]) for x in "IA"}
                    await s.start_endpoint(side)
                    s.trace.append(f"RESTART {side} ({restart['mode']})")
                    await recover_link(s)
                    await s.pump()
                    # window in which a ResendRequest would be spurious: the re-logon right after the restart
                    info["tap_end"] = {x: len(s.w.tap[x]) for x in "IA"}
                qn += 1
        how = await final_recovery(s)
        if how == "quiescent":
            if not check_counter_agreement(acc, s, "end of history", cid):
                return s, "violated", info
        return s, how, info
    except SpinAbort as e:
        s.trace.append(f"SPIN {e}")
        return s, "spin", info
    finally:
        ctl.armed = False
        s.stop()


def run_shard(spec, acc):
    from asyncfix.connection import AsyncFIXConnection as C
    from asyncfix.journaler import Journaler
    from vf.core.reach import Reach
    from vf.sim import crash, vclock
    acc.reach_obj = Reach({"create_or_load": Journaler.create_or_load, "send_msg": C.send_msg, "_finalize_message": C._finalize_message,
                           "_process_seqreset": C._process_seqreset, "_process_resend": C._process_resend, "persist_msg": Journaler.persist_msg,
                           "set_seq_num": Journaler.set_seq_num}).start()
    shard = spec["shard"]
    base = tempfile.mkdtemp(prefix=f"vf_c09_{os.getpid()}_", dir="/dev/shm" if os.path.isdir("/dev/shm") else None)
    ctl, shim, undo = crash.install(SideController())
    ctl.armed = False

    async def go(clock):
        for h in range(spec["nhist"]):
            rnd = random.Random(f"{spec['seed']}:C09:{shard}:{h}")
            steps = gen_history(rnd)
            hid = f"h:{shard}:{h}"
            # fault-free probe run
            probe = {"qpoints": [], "boundaries": []}
            cid = hid + ":probe"
            if acc.want(cid) or acc.only_case is not None:
                s, how, info = await run_one(acc, clock, base, ctl, shim, steps, None, cid, probe)
                if acc.want(cid):
                    acc.case_disjoint()
                    if how not in ("violated", "setup"):
                        end_oracle(acc, s, how, cid, {"mode": "none", "side": None})
                if how == "setup":
                    acc.add("setup_failed")
                    continue
            nq = len(probe["qpoints"])
            acc.add("quiescent_points", nq)
            # graceful restarts
            stride = spec["stride"]
            for q in range(0, nq, stride):
                for side in "IA":
                    for mode in ("graceful", "logout"):
                        cid = f"{hid}:q{q}:{side}:{mode}"
                        if not acc.want(cid):
                            continue
                        r = {"side": side, "mode": mode, "at": q}
                        s, how, info = await run_one(acc, clock, base, ctl, shim, steps, r, cid)
                        acc.case_disjoint()
                        acc.addmap("restarts", mode)
                        if how not in ("violated", "setup"):
                            end_oracle(acc, s, how, cid, info)
            # kills
            k = 0
            for idx, bl in enumerate(probe["boundaries"]):
                if steps[idx][0] in ("reset_seq_num", "seqreset", "send_slow_stop"):
                    continue          # renumbering by agreement between the two applications is not atomic across a kill by construction
                for (bi, label, side) in bl:
                    k += 1
                    if k % stride:
                        continue
                    cid = f"{hid}:s{idx}:k{bi}:{side}"
                    if not acc.want(cid):
                        continue
                    r = {"side": side, "mode": "kill", "step": idx, "kill_at": bi, "label": label}
                    s, how, info = await run_one(acc, clock, base, ctl, shim, steps, r, cid)
                    if how == "kill-point-not-reached":
                        acc.add("kill_point_not_reached")
                        continue
                    acc.case_disjoint()
                    acc.oracle("kill-points")
                    acc.addmap("kill_point_kinds", label.split(" in ")[0])
                    if how not in ("violated", "setup"):
                        end_oracle(acc, s, how, cid, info)
            if h < 2:
                acc.sample({"history": [list(x) for x in steps], "quiescent_points": nq, "kill_points": k}, 2)
    try:
        vclock.run(go)
    finally:
        undo()
        shutil.rmtree(base, ignore_errors=True)
    acc.reach_obj.stop()


class SideController:
    """crash.Controller + knowledge of which endpoint's journal a boundary belongs to + transport boundaries"""

    def __init__(self):
        self.n = 0
        self.die_at = None
        self.mode = "raise"
        self.log = []
        self.record = False
        self.armed = False
        self.dead = False
        self.dead_label = None
        self.dead_in_reader = False
        self.processing_ids = []
        self.only_side = None
        self.dead_side = None

    def boundary(self, label, side=None):
        from vf.sim.crash import Kill
        if not self.armed:
            return
        if side is None:
            side = self.current_side()
        if self.dead and side == self.dead_side:
            raise Kill("the process is dead: nothing more executes")      # e.g. finally-blocks of the code that was killed
        i = self.n
        self.n += 1
        if self.record:
            self.log.append((i, label, side))
        if self.die_at is not None and i == self.die_at and not self.dead and (self.only_side is None or side == self.only_side):
            self.dead = True
            self.dead_side = side
            self.dead_label = label
            t = asyncio.current_task()
            name = t.get_coro().__qualname__ if t is not None else ""
            self.dead_in_reader = "socket_read_task" in name
            raise Kill(f"killed at boundary {i} ({label})")

    def current_side(self):
        # whose code is running: walk the stack for an endpoint object (self with vf_name)
        f = sys._getframe(2)
        while f is not None:
            slf = f.f_locals.get("self")
            if slf is not None and hasattr(slf, "vf_name"):
                return slf.vf_name
            f = f.f_back
        return "?"
