"""C10  The decoder is total, makes progress and never accepts a corrupted frame."""
import random

from vf.checks import msggen
from vf.ref import fixwire

META = {
    "level": "exploration",
    "rule": ("(a) Codec.decode(silent=True) on: every position x {substitution by B values, deletion, insertion of I values} of a corpus "
             "of valid frames (quick B~40,I~16; thorough B=255,I=256), grammar-aware malformed frames (BodyLength/CheckSum/tag lexemes, "
             "missing '=', empty fields, swapped header, truncation at each field boundary, wrong BeginString, back-to-back markers, "
             "junk prefix + frame missing 1..n final bytes) "
             "and random byte strings biased to SOH '=' digits and the marker; oracle: no exception, 0<=consumed<=len, msg None <=> raw "
             "None, a returned message's raw bytes pass the independent framer and equal its field list; (b) repeated decode as the "
             "read loop does it terminates within len+2 iterations; (c) live socket_read_task fed malformed ++ valid tail (1, 2, many "
             "reads): task alive, not spinning, reacts to the tail; exact-length body corruptions, bad checksums and marker-free junk with "
             "the first valid frame split over two reads must deliver the whole tail; a wedge is named by the exception decode raises "
             "on the stuck buffer. "
             "distinct = hash of input bytes; non-trivial = input contains a frame-start marker"),
    "assumptions": ["a frame preceded by marker-free junk is still that frame (C03 judges it)",
                    "the malformed frame is line noise: the valid tail is numbered from the receiver's expected MsgSeqNum"],
}
REQUIRED_ORACLES = ["decode-total", "accepted-frame-is-valid", "repeated-decode", "live-reader"]
REQUIRED_COUNTERS = ["early_trailer_shapes_behind_junk", "single_byte_mutations", "live_cases_where_every_following_frame_must_be_processed"]
NSHARDS = 16


def plan(tier, seed):
    q = tier == "quick"
    return [{"shard": i, "nshards": NSHARDS, "nsub": 40 if q else 255, "nins": 16 if q else 256,
             "nrand": 8000 if q else 40000, "nlive": 400 if q else 2500} for i in range(NSHARDS)]


JUNK_PREFIXES = [b"10=123\x01", b"garbage!", b"\x0110=07", b"x" * 21, b"58=tail of a frame\x0110=200\x01", b"\x00" * 7, b"9=104\x0135=D\x01" + b"y" * 30, b"z" * 64, b"\x0110=000\x01" * 12]


def corpus():
    S, T = "PEER", "ME"
    c = [
        fixwire.msg("0", 2, S, T),
        fixwire.msg("1", 2, S, T, [(112, "TEST1")]),
        fixwire.msg("D", 2, S, T, [(11, "ord-1"), (55, "VOD.L"), (54, 1), (38, 100), (44, "12.5"), (58, "a=b")]),
        fixwire.msg("8", 2, S, T, [(11, "x"), (453, 2), (448, "p1"), (447, "D"), (452, 1), (448, "p2"), (447, "D"), (452, 3), (58, "t")]),
        fixwire.msg("A", 2, S, T, [(98, 0), (108, 30)]),
        fixwire.msg("4", 2, S, T, [(123, "Y"), (36, 7)]),
    ]
    # valid frames whose text is multi-byte UTF-8 (BodyLength and CheckSum over the bytes, as the wire has them): a reader that is
    # lenient about characters vs bytes has two sums to satisfy, and a corrupted lead byte may satisfy the other one
    c.append(fixwire.msg("D", 2, S, T, [(11, "u1"), (55, "X"), (58, "caf\u00e9 cr\u00e8me".encode("utf-8"))]))
    c.append(fixwire.msg("B", 2, S, T, [(148, "\u0417\u0430\u044f\u0432\u043a\u0430 \u043f\u0440\u0438\u043d\u044f\u0442\u0430".encode("utf-8")), (33, 1), (58, "\u20ac 12".encode("utf-8"))]))
    # frames in which one edit of a body tag yields "10=ddd" with ddd = the checksum of everything before it: an early, self-consistent
    # trailer (only the BodyLength still says that the frame is longer)
    for tag in (11, 17, 1, 100, 19):
        before, after = [(55, "VOD.L"), (54, 1)], [(38, 100), (44, "12.5"), (58, "tail")]
        fr = fixwire.msg("D", 2, S, T, before + [(tag, "000")] + after)
        cut = fr.index(b"\x01%d=000\x01" % tag) + 1
        ddd = b"%03d" % (sum(fr[:cut]) % 256)
        c.append(fixwire.msg("D", 2, S, T, before + [(tag, ddd.decode())] + after))
    return c


def int_ok(s):
    try:
        int(s)
        return True
    except Exception:
        return False


def lenient_fields(buf: bytes):
    """Split the first frame-looking thing into (tag, value) byte pairs (as the decoder would see them)."""
    i = buf.find(b"8=FIX.")
    if i < 0:
        return []
    s = buf[i:]
    n = s.find(b"8=FIX.", 5)
    if n >= 0:
        s = s[:n]
    out = []
    for p in s.split(b"\x01"):
        if not p:
            continue
        if b"=" in p:
            t, v = p.split(b"=", 1)
            out.append((t.decode("latin-1"), v.decode("latin-1")))
        else:
            out.append((p.decode("latin-1"), None))
    return out


def classify_exception(buf, exc):
    """Mechanism key for an exception that escaped decode()."""
    f = lenient_fields(buf)
    name = type(exc).__name__
    msg = str(exc)
    bl = f[1][1] if len(f) > 1 and f[1][0] == "9" else None
    if name == "ValueError" and "invalid literal for int" in msg:
        if bl is not None and not int_ok(bl):
            return "raises:bodylength-not-integer"
        if any(t == "10" and v is not None and not int_ok(v) for t, v in f):
            return "raises:checksum-not-integer"
    if name == "FIXMessageError" and "Tags must be only integers" in msg:
        if any(not int_ok(t) for t, v in f if v is not None):
            return "raises:tag-not-integer"
    if name == "AttributeError" and "'parent'" in msg:
        tags = [t for t, v in f if v is not None]
        if len(set(tags)) < len(tags):
            return "raises:duplicate-top-level-tag-after-group"
    return f"raises:{name}:other"


def check_decode(acc, codec, buf, cid, kind, witness_extra=None):
    """Oracle (a)+(b) on one buffer."""
    w = {"kind": kind, "input": fixwire.show(buf)[:500], "hex": buf[:300].hex()}
    if witness_extra:
        w.update(witness_extra)
    acc.case(buf, nontrivial=b"8=FIX." in buf)
    acc.oracle("decode-total")
    try:
        msg, consumed, raw = codec.decode(buf)
    except Exception as e:
        acc.violation(classify_exception(buf, e), f"decode raised {type(e).__name__}: {e}", w, cid)
        return
    f = lenient_fields(buf)
    bl = f[1][1] if len(f) > 1 and f[1][0] == "9" else None
    if not isinstance(consumed, int) or consumed < 0 or consumed > len(buf):
        if bl is not None and int_ok(bl) and int(bl) < 0:
            acc.violation("negative-bodylength-consumed-out-of-range", f"consumed={consumed} len={len(buf)}", w, cid)
        elif isinstance(consumed, int) and consumed > len(buf) and buf.find(b"8=FIX.") > 0 and bl is not None and int_ok(bl) and \
                len(f[0][0]) + len(f[0][1] or "") + len(bl) + 12 + int(bl) > len(buf) - buf.find(b"8=FIX."):
            # frame start behind a junk prefix, frame itself incomplete, completeness tested against junk + frame
            acc.violation("consumed-exceeds-buffer-after-junk-prefix", f"consumed={consumed} len={len(buf)} junk={buf.find(b'8=FIX.')}", w, cid)
        else:
            acc.violation("consumed-out-of-range", f"consumed={consumed} len={len(buf)}", w, cid)
    if (msg is None) != (raw is None):
        acc.violation("msg-raw-mismatch", f"msg is None={msg is None} raw is None={raw is None}", w, cid)
    if msg is not None and raw is not None:
        acc.oracle("accepted-frame-is-valid")
        acc.add("messages_returned")
        try:
            ref = fixwire.parse(bytes(raw), strict_tags=False)   # the statement demands CheckSum / BodyLength consistency, not tag lexemes
        except fixwire.FrameError as e:
            s = str(e)
            rb = bytes(raw)
            k10 = rb.rfind(b"\x0110=")
            lex = rb[k10 + 4:] if k10 >= 0 else b""
            if lex.endswith(b"\x01"):
                lex = lex[:-1]
            if k10 >= 0 and not (len(lex) == 3 and lex.isdigit()) and int_ok(lex.decode("latin-1")):
                key = "lenient-checksum-lexeme"
            elif s.startswith("no terminating SOH") and len(lex) == 3 and lex.isdigit():
                key = "missing-final-soh-accepted"
            elif s.startswith("CheckSum not three digits"):
                key = "lenient-checksum-lexeme"
            elif s.startswith("BodyLength not digits"):
                key = "lenient-bodylength-lexeme"
            elif s.startswith("BodyLength ") and "!= actual" in s:
                decl, act = int(s.split()[1]), int(s.split()[-1])
                # declared larger than the frame: the frame was cut short (or a field garbled into an early "10=") - repaired in the
                # repository; declared smaller: pinned by tests/test_codec.py::test_decode_custom_msg_type (listed finding)
                key = "bodylength-not-verified" if decl < act else "bodylength-exceeds-frame-accepted"
                # (the framer reports the first inconsistency it meets; a frame whose CheckSum is wrong as well is the graver case and
                #  must not hide behind the listed BodyLength finding)
                if k10 >= 0 and len(lex) == 3 and lex.isdigit() and int(lex) != sum(rb[:k10 + 1]) % 256:
                    key = "accepts-wrong-checksum"
            elif s.startswith("CheckSum ") and "!= actual" in s:
                key = "accepts-wrong-checksum"
            elif s.startswith(("third field is not MsgType", "fewer than 4 fields", "empty value for tag")):
                # the statement ties a returned message to CheckSum and BodyLength, not to which fields the frame carries:
                # a checksum-consistent frame without MsgType is the session layer's business (counted, not judged)
                acc.add("returned_frames_without_msgtype_or_with_empty_value__outside_the_statement")
                key = None
            else:
                key = "accepts-malformed:" + s.split(":")[0][:40]
            if key is not None:
                acc.violation(key, f"decode returned a message for a frame the independent framer rejects: {e}", w, cid)
            ref = None
        if ref is not None:
            if bytes(raw) not in buf:
                acc.violation("raw-not-substring", "returned raw bytes are not a substring of the input", w, cid)
            elif isinstance(consumed, int) and buf[:consumed][-len(raw):] != bytes(raw):
                acc.violation("raw-does-not-end-at-consumed", f"consumed={consumed}", w, cid)
            got = msggen.flatten(msggen.walk_tags(msg))
            if not any(isinstance(v, str) and v.startswith("#") for _, v in got):
                if sorted((t.strip(), v) for t, v in got) != sorted(ref):
                    acc.violation("decoded-fields-differ", f"{got[:8]} vs {ref[:8]}", w, cid)
    # (b) repeated decode as the read loop does it
    acc.oracle("repeated-decode")
    b = buf
    it = 0
    try:
        while True:
            it += 1
            if it > len(buf) + 2:
                if bl is not None and int_ok(bl) and int(bl) < 0:
                    acc.violation("negative-bodylength-consumed-out-of-range", f"read-loop style decoding never terminates: {it} iterations", w, cid)
                else:
                    acc.violation("repeated-decode-nonterminating", f"{it} iterations on {len(buf)} bytes", w, cid)
                break
            m, n, r = codec.decode(b)
            if isinstance(n, int) and n > 0:
                b = b[n:]
            if m is None:
                break
    except Exception:
        pass  # already reported by (a) on the first call, or a follow-up of it


def mutations(frame, nsub, nins, rnd):
    n = len(frame)
    for pos in range(n):
        orig = frame[pos]
        subs = [x for x in range(256) if x != orig] if nsub >= 255 else \
            sorted(set([1, 0x3D, 0x30, 0x20, 0x38, 0, orig ^ 1, (orig + 1) % 256, orig ^ 0x80, 0xB2, 0xB3, 0xB9] + [rnd.randrange(256) for _ in range(nsub)]) - {orig})[:nsub + 8]
        for x in subs:
            yield ("sub", pos, x), frame[:pos] + bytes([x]) + frame[pos + 1:]
        yield ("del", pos, None), frame[:pos] + frame[pos + 1:]
    for pos in range(n + 1):
        ins = range(256) if nins >= 256 else sorted(set([1, 0x3D, 0x30, 0x20, 0x2B, 0] + [rnd.randrange(256) for _ in range(nins)]))
        for x in ins:
            yield ("ins", pos, x), frame[:pos] + bytes([x]) + frame[pos:]


def grammar_cases():
    S, T = "PEER", "ME"
    body = [(35, "D"), (49, S), (56, T), (34, 2), (52, "20240101-00:00:00.000"), (11, "g1"), (58, "text")]
    out = []
    good = fixwire.build(body)
    real_bl = int(fixwire.get(fixwire.parse(good), 9))
    for bl in ["", "ab", "-5", "-100", "+%d" % real_bl, " %d" % real_bl, "%d " % real_bl, "1_0", "9" * 30, "0", str(real_bl - 1), str(real_bl + 1),
               str(real_bl + 50), "0%d" % real_bl, "1e2", "٣", "9" * 4301, "1" + "0" * 6000, "0" * 5000 + str(real_bl), str(real_bl * 10),
               str(real_bl) + "0" * 3]:
        out.append((f"bodylength={bl[:12]!r}{'' if len(bl) <= 12 else '...x%d' % len(bl)}", fixwire.build(body, body_length=bl.encode("utf-8") if not bl.isascii() else bl)))
    ck = int(fixwire.get(fixwire.parse(good), 10))
    for c in ["abc", "5", "%d" % ck if ck < 100 else "05", " %d" % ck, "%d " % ck, "+%d" % ck, "0%03d" % ck, "", "1 3", "%03d" % ((ck + 1) % 256),
              "%03d" % ((ck + 128) % 256), "²³¹", "%02d" % (ck % 100), "-%d" % ck, "%d" % ck]:
        out.append((f"checksum={c!r}", fixwire.build(body, checksum=c.encode("latin-1"))))
    for tag in ["ab", "", " 58", "-1", "5 8", "0x3A", "58.0", "+58", "058"]:
        b2 = body[:-1] + [(tag, "v")]
        out.append((f"tag={tag!r}", fixwire.build(b2)))
    # frames whose BodyLength and CheckSum were counted over CHARACTERS and written as UTF-8 (what this library's own send path emits
    # for non-ASCII text - C02's listed finding): inconsistent with their bytes, so never a message; likewise with a damaged lead byte
    for text in ("café", "Zürich–Ærø", "ÿ"):
        body_s = "35=D\x0149=%s\x0156=%s\x0134=2\x0152=20240101-00:00:00.000\x0111=g1\x0158=%s\x01" % (S, T, text)
        head = "8=FIX.4.4\x019=%d\x01" % len(body_s)
        fr = (head + body_s + "10=%03d\x01" % (sum(ord(c) for c in head + body_s) % 256)).encode("utf-8")
        out.append((f"lengths-counted-in-characters:{text[:4]}", fr))
        i = fr.find(b"\xc3")
        if i >= 0:
            out.append((f"lengths-counted-in-characters:{text[:4]}:lead-byte-damaged", fr[:i] + b"\xc7" + fr[i + 1:]))
    # frames the decoder returns but the session layer chokes on
    for sq in ("2x", "", "-2", "2.0", " 2", "9" * 4400):
        b2 = [(t, (sq if t == 34 else v)) for t, v in body]
        out.append((f"seqnum={sq[:6]!r}", fixwire.build(b2)))
    out.append(("two-senders", fixwire.build(body[:2] + [(49, "PEER")] + body[2:])))
    out.append(("two-seqnums", fixwire.build(body[:4] + [(34, 2)] + body[4:])))
    out.append(("no-msgtype", fixwire.build(body[1:])))
    out.append(("no-seqnum", fixwire.build([x for x in body if x[0] != 34])))
    # missing '=', empty fields
    fr = good
    out.append(("missing-equals", fr.replace(b"11=g1", b"11g1")))
    out.append(("empty-field", fr.replace(b"11=g1\x01", b"\x01")))
    out.append(("empty-value", fixwire.build(body[:-1] + [(58, "")])))
    out.append(("double-soh", fr.replace(b"\x0111=", b"\x01\x0111=")))
    # swapped header fields
    p = fixwire.parse(good)
    def raw(fields):
        return b"".join(t.encode() + b"=" + v.encode("latin-1") + b"\x01" for t, v in fields)
    out.append(("swap-8-9", raw([p[1], p[0]] + p[2:])))
    out.append(("swap-9-35", raw([p[0], p[2], p[1]] + p[3:])))
    out.append(("no-9", raw([p[0]] + p[2:])))
    out.append(("no-10", raw(p[:-1])))
    out.append(("10-in-middle", raw(p[:4] + [p[-1]] + p[4:-1])))
    out.append(("two-10", raw(p + [p[-1]])))
    # truncation at each field boundary and inside
    acc_len = 0
    for i in range(1, len(p)):
        out.append((f"trunc-fields-{i}", raw(p[:i])))
    for cut in (1, 5, 6, 9, 10, 12, len(good) - 1, len(good) - 2, len(good) - 4, len(good) - 7):
        out.append((f"trunc-bytes-{cut}", good[:cut]))
    # a long frame cut short (its BodyLength announces thousands of bytes that never come), then the peer carries on
    big = fixwire.build(body[:-1] + [(58, "N" * 3000)])
    for cut in (60, 200, 1000, len(big) - 8):
        out.append((f"trunc-big-{cut}", big[:cut]))
    out.append(("big-then-nothing-missing", big))
    # wrong BeginString
    for bs in (b"FIX.4.2", b"FIX.5.0", b"FIXT.1.1", b"FIX.4.4 ", b"FIX.", b"FIX.4.44"):
        out.append((f"beginstring={bs!r}", fixwire.build(body, beginstring=bs)))
    # back-to-back markers
    out.append(("marker-marker", b"8=FIX.8=FIX.4.4\x01" + good))
    out.append(("marker-then-good", b"8=FIX.4.4\x01" + good))
    out.append(("marker9-then-good", b"8=FIX.4.4\x019=5\x01" + good))
    out.append(("good-good", good + good))
    out.append(("junk-good", b"\x00\x01garbage=\x01" + good))
    # junk prefix + frame that is not complete yet (the junk is longer than what is missing)
    for junk in (b"somejunk\n", b"\x00\x01garbage=\x0110=000\x01" * 2, b"x" * 64):
        for miss in (1, 5, 9, 20, len(good) - 16):
            out.append((f"junk{len(junk)}-partial-minus{miss}", junk + good[:len(good) - miss]))
    return out


def rand_bytes(rnd):
    n = rnd.randrange(0, 120)
    al = [b"\x01", b"=", b"8=FIX.", b"8=FIX.4.4\x01", b"9=", b"10=", b"35=", b"34=", b"0", b"1", b"5", b"9", b"12", b"\x00", b"\xff", b"A", b"-", b"+", b" "]
    out = bytearray()
    while len(out) < n:
        if rnd.random() < 0.7:
            out += rnd.choice(al)
        else:
            out.append(rnd.randrange(256))
    return bytes(out)


# ------------------------------------------------------------------ (c) live reader

def live_cases(rnd, n):
    """(kind, malformed bytes, must_deliver_all)"""
    cor = corpus()
    g = grammar_cases()
    out = []
    for _ in range(n):
        r = rnd.random()
        fr = rnd.choice(cor)
        if r < 0.35:
            # exact-length body corruption: substitute one byte strictly inside a body value
            p = fixwire.parse(fr)
            # offsets of body region: after "9=..|" up to before "10="
            start = fr.index(b"\x0135=") + 1
            end = fr.rindex(b"\x0110=")
            cand = [i for i in range(start, end) if fr[i] not in (1, 0x3D) and fr[i - 1] not in (1,) and chr(fr[i]).isalnum()]
            pos = rnd.choice(cand)
            x = rnd.choice([c for c in b"abcxyzQ7" if c != fr[pos]])
            mal = fr[:pos] + bytes([x]) + fr[pos + 1:]
            if b"8=FIX." in mal[1:]:
                continue
            out.append((f"body-sub@{pos}", mal, True))
        elif r < 0.5:
            ck = int(fixwire.get(fixwire.parse(fr), 10))
            mal = fr[:-4] + b"%03d" % ((ck + rnd.randrange(1, 255)) % 256) + b"\x01"
            out.append(("bad-checksum", mal, True))
        elif r < 0.56:
            al = b"abcXYZ=\x01\x000123 \n"
            mal = bytes(rnd.choice(al) for _ in range(rnd.randrange(8, 70)))
            out.append((f"junk-prefix:{rnd.randrange(1, 60)}", mal, True))
        elif r < 0.8:
            k, mal = rnd.choice(g)
            out.append(("grammar:" + k, mal, False))
        else:
            (k, pos, x), mal = rnd.choice(list(mutations(fr, 3, 2, rnd)))
            out.append((f"mut:{k}@{pos}", mal, False))
    return out


async def live_one(acc, clock, kind, mal, must_all, chunking, cid):
    from asyncfix import Journaler
    from asyncfix.connection import ConnectionRole, ConnectionState
    from vf.sim import endpoint as E
    from vf.sim.net import settle, SpinAbort
    j = Journaler()
    ep = E.new_endpoint("generic", "ME", "PEER", j, name="ME")
    E.attach(ep, clock, ConnectionRole.ACCEPTOR)
    E.start_reader(ep)
    peer = E.Peer("PEER", "ME")
    w = {"kind": kind, "malformed": fixwire.show(mal)[:400], "hex": mal[:200].hex(), "chunking": chunking}
    acc.oracle("live-reader")
    processed = []
    inner_pm = ep._process_message

    async def recording_pm(msg, raw_msg, *a, **kw):
        processed.append(bytes(raw_msg) if isinstance(raw_msg, (bytes, bytearray)) else raw_msg)
        return await inner_pm(msg, raw_msg, *a, **kw)
    ep._process_message = recording_pm          # observation at the boundary between framing and the session layer
    try:
        ep.vf_reader.feed(peer.logon())
        await settle()
        if ep.connection_state != ConnectionState.ACTIVE:
            acc.inconclusive("live reader: logon did not reach ACTIVE")
            return
        tap0 = len(ep.vf_tap)
        tail = [peer.frame("D", None, [(11, f"t{i}"), (58, "x" * 60)]) for i in range(8)]
        stream = mal + b"".join(tail)
        if kind.startswith("junk-prefix:"):
            # marker-free junk and the first part of the first valid frame arrive in one read, the rest in the next
            k = max(1, min(int(kind.split(":")[1]), len(tail[0]) - 20))
            chunks = [mal + tail[0][:-k], tail[0][-k:] + b"".join(tail[1:])]
            w["chunking"] = f"junk+frame[:-{k}] | rest"
        elif chunking == "one":
            chunks = [stream]
        elif chunking == "two":
            chunks = [mal, b"".join(tail)]
        elif chunking == "split":
            k = max(1, len(mal) // 2)
            chunks = [stream[:k], stream[k:]]
        else:
            # many small reads, but never a cut inside a frame-start marker (that is C03's subject and a listed finding there)
            marks = []
            m = stream.find(b"8=FIX.")
            while m >= 0:
                marks.append(m)
                m = stream.find(b"8=FIX.", m + 1)
            cuts = [p for p in range(7, len(stream), 7) if not any(mm < p < mm + 6 for mm in marks)]
            chunks = [stream[a:b] for a, b in zip([0] + cuts, cuts + [len(stream)])]
        for c in chunks:
            ep.vf_reader.feed(c)
            await settle()
        def reacted():
            return bool(ep.rx) or len(ep.vf_tap) > tap0 or ep.connection_state <= ConnectionState.DISCONNECTED_BROKEN_CONN
        processed_when_all_bytes_were_in = list(processed)      # before any further traffic: nothing may wait for "the next read"
        if not reacted():
            # give it more valid traffic before calling it wedged
            more = [peer.frame("D", None, [(11, f"m{i}"), (58, "y" * 60)]) for i in range(8)]
            for fr in more:
                ep.vf_reader.feed(fr)
                await settle()
        fail = E.task_failure(ep)
        if fail is not None:
            acc.violation("live-reader-task-died:" + type(fail).__name__, str(fail), w, cid)
            return
        if ep.vf_read_task.done():
            acc.violation("live-reader-task-ended", "socket_read_task returned", w, cid)
            return
        if not reacted():
            w["buffer_len"] = len(ep._msg_buffer)
            w["swallowed"] = ep.vf_log.exceptions[:3]
            key = "live-reader-wedged"
            exs = " ".join(ep.vf_log.exceptions)
            f = lenient_fields(mal)
            bl = f[1][1] if len(f) > 1 and f[1][0] == "9" else None
            # the wedge is "decode raises on the bytes the read loop never drops": ask the decoder for the exception
            # on exactly those bytes and name the mechanism with the same classifier oracle (a) uses
            redo = None
            if exs:
                try:
                    ep._codec.decode(bytes(ep._msg_buffer))
                except Exception as e:  # noqa: BLE001
                    redo = classify_exception(bytes(ep._msg_buffer), e)
                    w["decode_of_stuck_buffer"] = f"{type(e).__name__}: {e}"
            if redo is not None and not redo.endswith(":other"):
                key = redo
            elif "invalid literal for int" in exs and bl is not None and not int_ok(bl):
                key = "raises:bodylength-not-integer"
            elif "invalid literal for int" in exs and any(t == "10" and v is not None and not int_ok(v) for t, v in lenient_fields(ep._msg_buffer)):
                key = "raises:checksum-not-integer"
            elif "Tags must be only integers" in exs:
                key = "raises:tag-not-integer"
            elif bl is not None and int_ok(bl) and int(bl) < 0:
                key = "negative-bodylength-consumed-out-of-range"
            else:
                i0 = mal.find(b"8=FIX.")
                i1 = mal.find(b"8=FIX.", i0 + 5) if i0 >= 0 else -1
                first = (mal[i0:i1] if i1 >= 0 else mal[i0:]) if i0 >= 0 else b""
                nf = len([x for x in first.split(b"\x01") if x])
                if i0 >= 0 and nf < 3 and not exs:
                    key = "short-frame-head-never-skipped"
            acc.violation(key, f"live reader never reacts to {16} valid frames after the malformed input; buffer={len(ep._msg_buffer)} bytes", w, cid)
            return
        # frames that follow the malformed one must reach the session layer, each once, whatever the malformed one did to the
        # code that handled it - unless the connection chose to disconnect.  Only when the malformed bytes stop in the middle of a
        # field (no SOH before the next frame's "8=FIX.") the first valid frame is left out: marker text inside a value is legal,
        # so nothing tells the decoder where that neighbour starts.
        if ep.connection_state > ConnectionState.DISCONNECTED_BROKEN_CONN and not kind.startswith("junk-prefix:"):
            acc.oracle("live-reader-following-frames-reach-the-session-layer")
            cnt = [sum(1 for r in processed_when_all_bytes_were_in if r == t) for t in tail]
            w["tail_frames_processed"] = cnt
            first = 0 if mal.endswith(b"\x01") else 1
            import re
            if first == 1 and re.search(rb"\x0110=\d{3}[^\x01]?$", mal):
                # ... but a CheckSum field is three digits: when the malformed frame stops right behind them (its closing SOH damaged or
                # missing) the neighbour's start is known, and the neighbour is processed
                first = 0
                acc.add("live_cases_ending_in_a_checksum_field_without_its_soh")
            if first == 0:
                acc.add("live_cases_where_every_following_frame_must_be_processed")
            if any(c != 1 for c in cnt[first:]):
                acc.violation("live-reader-drops-valid-frames-behind-the-malformed-one" if any(c == 0 for c in cnt[first:]) else
                              "live-reader-processes-a-frame-twice",
                              f"of the 8 valid frames behind the malformed input, times handed to message processing: {cnt}; "
                              f"connection still {ep.connection_state.name}", w, cid)
                return
        if must_all:
            acc.oracle("live-reader-must-deliver-all")
            got = [r[1] for r in ep.rx]
            exp = [f"t{i}" for i in range(8)]
            resend = [f for f in E.parse_tap(ep.vf_tap.frames(tap0)) if not isinstance(f, Exception) and fixwire.get(f, 35) in ("2", "5")]
            if got[:8] != exp or resend:
                acc.violation("live-reader-lost-frame-split-after-junk-prefix" if kind.startswith("junk-prefix:") else
                              "live-reader-lost-frames-after-exact-length-corruption",
                              f"delivered {got[:10]} expected {exp}; resend/logout frames={len(resend)}", w, cid)
    except SpinAbort as e:
        acc.violation("live-reader-spins", str(e), w, cid)
    finally:
        E.stop_tasks(ep)


def run_shard(spec, acc):
    from asyncfix.codec import Codec
    from asyncfix.connection import AsyncFIXConnection as C
    from asyncfix.protocol import FIXProtocol44
    from vf.core.reach import Reach
    from vf.sim import vclock
    codec = Codec(FIXProtocol44())
    acc.reach_obj = Reach({"Codec.decode": Codec.decode, "socket_read_task": C.socket_read_task}).start()
    shard, nsh = spec["shard"], spec["nshards"]
    idx = 0
    cor = corpus()
    # add two frames produced by the library's own encoder
    try:
        from asyncfix import FIXMessage, Journaler
        vclock.install(vclock.VClock())
        s = Journaler().create_or_load("ME", "PEER")
        cor.append(codec.encode(FIXMessage("D", {11: "enc1", 55: "X", 58: "10=000"}), s).encode())
    except Exception:
        pass
    for ci, fr in enumerate(cor):
        rnd = random.Random(f"{spec['seed']}:C10:mut:{ci}")
        if shard == 0:
            check_decode(acc, codec, fr, f"valid:{ci}", "valid")
        for (k, pos, x), buf in mutations(fr, spec["nsub"], spec["nins"], rnd):
            idx += 1
            if idx % nsh != shard:
                continue
            cid = f"mut:{ci}:{k}:{pos}:{x}"
            if acc.want(cid):
                check_decode(acc, codec, buf, cid, f"{k}@{pos}", {"frame": ci})
                acc.add("single_byte_mutations")
                if idx % 4 == 0:
                    # the same corrupted frame behind bytes that are still in the buffer (line noise, the orphaned tail of an earlier frame)
                    junk = JUNK_PREFIXES[(idx // 4) % len(JUNK_PREFIXES)]
                    check_decode(acc, codec, junk + buf, cid + ":junk", f"{k}@{pos}+junk{len(junk)}", {"frame": ci, "junk": len(junk)})
                    acc.add("single_byte_mutations_behind_junk")
                if buf.count(b"\x0110=") >= 2:
                    # a second CheckSum-looking field inside the frame: every junk prefix, whatever the case index
                    for junk in JUNK_PREFIXES:
                        check_decode(acc, codec, junk + buf, cid + f":junk{len(junk)}", f"{k}@{pos}+junk{len(junk)}", {"frame": ci, "junk": len(junk)})
                        acc.add("early_trailer_shapes_behind_junk")
    if shard == 1:
        for ci, fr in enumerate(cor):
            if acc.want(f"nosoh:{ci}"):
                check_decode(acc, codec, fr[:-1] + cor[(ci + 1) % len(cor)], f"nosoh:{ci}", "final-SOH-deleted+next-frame")
    for gi, (k, buf) in enumerate(grammar_cases()):
        if gi % nsh != shard:
            continue
        cid = f"grammar:{gi}"
        if acc.want(cid):
            check_decode(acc, codec, buf, cid, "grammar:" + k)
            acc.add("grammar_cases")
            # and followed by a valid frame in the same buffer
            check_decode(acc, codec, buf + cor[2], cid + "+tail", "grammar+tail:" + k)
    for c in range(spec["nrand"]):
        cid = f"rand:{shard}:{c}"
        if acc.want(cid):
            rnd = random.Random(f"{spec['seed']}:C10:{shard}:{c}")
            check_decode(acc, codec, rand_bytes(rnd), cid, "random")
            acc.add("random_strings")
    acc.sample({"grammar_example": fixwire.show(grammar_cases()[1][1])}, 1)
    # live reader
    rnd = random.Random(f"{spec['seed']}:C10:live:{shard}")
    cases = live_cases(rnd, spec["nlive"])
    # directed probes so that every listed finding is reproduced by the live reader too
    if shard == 1:
        g = dict(grammar_cases())
        cases = [("grammar:" + k, g[k], False) for k in g if k.startswith(("trunc-big", "big-then"))] * 2 + cases
    if shard == 0:
        g = dict(grammar_cases())
        cases = [("grammar:" + k, g[k], False) for k in g if k.startswith(("bodylength='ab'", "checksum='abc'", "tag='ab'", "bodylength='-100'"))] + cases
    for li, (kind, mal, must_all) in enumerate(cases):
        cid = f"live:{shard}:{li}"
        if not acc.want(cid):
            continue
        f0 = lenient_fields(mal)
        bl0 = f0[1][1] if len(f0) > 1 and f0[1][0] == "9" else None
        if bl0 is not None and int_ok(bl0) and int(bl0) > 1500:
            # (until repo fixes aeca204 / ad659c5 a frame that claims more bytes than the tail has was an unspecified zone; since then
            #  the start of the next frame ends the wait, so these are judged like the rest)
            acc.add("live_cases_claiming_more_bytes_than_follow")
        chunking = ["one", "two", "split", "many"][li % 4]

        async def go(clock):
            await live_one(acc, clock, kind, mal, must_all, chunking, cid)
        vclock.run(go)
        acc.case(("live", mal, chunking), nontrivial=True)
    acc.sample({"live_example": {"kind": cases[0][0], "malformed": fixwire.show(cases[0][1])[:200]}}, 3)
    acc.reach_obj.stop()
