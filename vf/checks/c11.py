"""C11  Nothing passes to or from the application outside an established session (enumerated product of cells).

One fresh real connection per cell (AsyncFIXClient / AsyncFIXDummyServer subclasses that only record), real socket_read_task
(and heartbeat task where the cell needs it) on the virtual-time loop, frames from the independent framer.  Judged from
callbacks, the transport tap, connection_state and the live + stored counters.
"""
import random
import sys

from vf.ref import fixwire

META = {
    "level": "exploration",
    "rule": ("enumerated cells, one fresh connection each: (A) before Logon completes - acceptor/initiator in NETWORK_CONN_ESTABLISHED and initiator "
             "in LOGON_INITIAL_SENT x every non-Logon message class x MsgSeqNum in {E, E+2}: no callback, at most a Logout on the tap, inbound "
             "counters unchanged, connection dropped; sends of every non-Logon/Logout class in never-connected / NETWORK_CONN_ESTABLISHED / "
             "LOGON_INITIAL_SENT / disconnected states: refused, tap+journal+counters unchanged; (B) integrity defects {wrong BeginString, "
             "Sender/TargetCompID missing/wrong/swapped, MsgSeqNum missing, too low without PossDupFlag} x 9 message classes x states {before "
             "Logon (on the Logon itself), ACTIVE, RESENDREQ_AWAITING} x both roles x header field orders: never on_message, inbound counters "
             "unchanged, disconnected, Logout with Text last on the tap when CompIDs were valid; (C) after every kind of disconnect (each B "
             "cell, inbound Logout, EOF, reset, watchdog, application disconnect, double causes): further valid frames in the same read and "
             "later produce no frame and no callback, sends are refused, on_disconnect exactly once; distinct = cell id; non-trivial = all"),
    "assumptions": ["whether the Logout by which an acceptor refuses a Logon (initiator in LOGON_INITIAL_SENT, expected number) is counted is unspecified",
                    "below-expectation frames carrying PossDupFlag=Y or of type SequenceReset are outside this property (C04)",
                    "a non-numeric MsgSeqNum is not named by the statement: only no-delivery and no-counter-advance are judged for it",
                    "what an initiator does with a too-high Logon reply is C04/C07's subject"],
}
REQUIRED_ORACLES = ["D:logon-first", "A:inbound-before-logon", "A:send-refused", "B:integrity", "B:wrong-beginstring", "C:silent-after-disconnect", "C:disconnect-once"]
NSHARDS = 16

CLASSES = {
    "app": ("D", [(11, "id1"), (55, "X")]), "exec": ("8", [(11, "id1"), (17, "e1")]), "hb": ("0", []), "tr": ("1", [(112, "T1")]),
    "rr": ("2", [(7, 1), (16, 0)]), "gf": ("4", [(123, "Y"), (36, "NEW")]), "rs": ("4", [(36, "NEW")]), "logout": ("5", [(58, "bye")]),
    "logon": ("A", [(98, 0), (108, 30)]), "custom": ("ZZ", [(58, "x")]),
    # a Logon asking for a sequence reset: an integrity defect is a defect all the same (34=1 with it is the legitimate reset: left out)
    "logonr": ("A", [(98, 0), (108, 30), (141, "Y")]),
}
# ("seq-spelled-*": a MsgSeqNum that only Python's int() takes for the expected number - '+5', ' 5', '0_5': a missing / unusable MsgSeqNum)
DEFECTS = ["seq-too-low-dupflag-odd", "seq-spelled-plus", "seq-spelled-blank", "seq-spelled-underscore", "sender-missing", "target-missing", "sender-wrong", "target-wrong", "sender-case", "target-case", "swapped", "both-missing", "seq-missing", "seq-too-low", "seq-one",
           "beginstring-42", "beginstring-fixt"]
ORDERS = ["std", "seq-first", "ids-last"]


def plan(tier, seed):
    return [{"shard": i, "nshards": NSHARDS, "nrand": 40 if tier == "quick" else 1500} for i in range(NSHARDS)]


def mkframe(mt, seq, sender, target, body, possdup=False, order="std", beginstring=b"FIX.4.4"):
    hdr = {"49": sender, "56": target, "34": seq, "52": "20240101-00:00:00.000"}
    names = {"std": ["49", "56", "34", "52"], "seq-first": ["34", "49", "56", "52"], "ids-last": ["34", "52", "56", "49"]}[order]
    f = [(35, mt)] + [(t, hdr[t]) for t in names if hdr[t] is not None]
    if possdup:
        f += [(43, "Y"), (122, "20231231-23:59:59.000")]
    f += list(body)
    return fixwire.build(f, beginstring=beginstring)


def all_cells():
    cells = []
    # A: inbound before logon
    for role, st in (("acceptor", "nce"), ("initiator", "nce"), ("initiator", "logon_sent")):
        for cls in CLASSES:
            if cls in ("logon", "logonr"):
                continue
            for rel in (0, 2):
                cells.append(("A-in", role, st, cls, rel))
            # ... and the same first message with a header the session layer cannot read (a header field given twice, a MsgSeqNum that is
            # not a number): "a first inbound message other than Logon makes the connection drop" does not depend on the rest of it
            if cls in ("app", "hb", "custom", "rr"):
                for hd in ("seq-dup", "seq-abc", "sender-dup", "target-dup-wrong", "seq-empty"):
                    cells.append(("A-in", role, st, cls, 0, hd))
    # A'': a Logon that lacks a field the Logon processing needs (HeartBtInt, EncryptMethod): no Logon exchange has completed, so
    # the application message behind it (numbered as if the Logon had counted, or not) is not delivered
    for role, st in (("acceptor", "nce"), ("initiator", "logon_sent")):
        for missing in ("108", "98", "108+98", "dup108", "dup98"):
            for rel in (0, 1):
                for same_read in (False, True):
                    cells.append(("A-badlogon", role, st, missing, rel, same_read))
    # A-reply: the acceptor cannot answer a well-formed Logon (the journal refuses the reply, the write fails): no Logon exchange has
    # completed, so the application message behind it is not delivered either
    for fault in ("journal-refuses", "drain-raises"):
        for rel in (0, 1):
            for same_read in (False, True):
                cells.append(("A-logon-reply-fails", "acceptor", "nce", fault, rel, same_read))
    # A: sends
    for role in ("acceptor", "initiator"):
        for st in ("never", "nce", "logon_sent", "disconnected"):
            if st == "logon_sent" and role == "acceptor":
                continue
            for cls in ("app", "exec", "hb", "tr", "rr", "gf", "custom", "test_req"):
                cells.append(("A-send", role, st, cls, 0))
    # A': sends attempted from inside the Logon processing (the application's on_state_change / on_logon callbacks, i.e. what a
    # concurrent task sees while the acceptor is between receiving the Logon and answering it)
    for hook_state in ("LOGON_INITIAL_RECV",):
        for cls in ("app", "exec", "hb", "rr", "custom"):
            cells.append(("A-send-in-logon", "acceptor", hook_state, cls, 0))
            # ... on the second connection of an object whose first one it ended itself with a Logout as first frame
            cells.append(("A-send-in-logon", "acceptor", hook_state, cls, "second"))
            # ... and from inside the callback of the initiator's own first Logon (generic connection class: the role is not declared)
            cells.append(("A-send-in-logon", "initiator", "LOGON_INITIAL_SENT", cls, "generic"))
            cells.append(("A-send-in-logon", "initiator", "LOGON_INITIAL_SENT", cls, 0))
    # B: integrity defects
    for role in ("acceptor", "initiator"):
        for st in ("prelogon", "active", "awaiting"):
            for cls in CLASSES:
                if st == "prelogon" and cls not in ("logon", "logonr"):
                    continue
                for d in DEFECTS:
                    if cls == "logonr" and (d == "seq-one" or (d == "seq-too-low" and st == "prelogon")):
                        continue
                    if (d.startswith("seq-spelled") or d == "seq-too-low-dupflag-odd") and cls not in ("app", "hb", "logon", "tr"):
                        continue
                    for order in ORDERS:
                        if order != "std" and cls not in ("app", "logon", "hb"):
                            continue
                        cells.append(("B", role, st, cls, d, order))
    # B'': a too-low number on a frame marked as a possible duplicate: the session may shrug it off or disconnect, but the application
    # never sees it and the inbound numbering does not move
    for role in ("acceptor", "initiator"):
        for st in ("active", "awaiting"):
            for cls in ("app", "exec", "custom", "hb", "tr", "logout"):
                for back in (1, 2, "one"):
                    for order in ("std", "seq-first"):
                        cells.append(("B-lowdup", role, st, cls, back, order))
    # B': the Logout that states the reason cannot be written (the peer is already gone): the connection must still end disconnected
    for role in ("acceptor", "initiator"):
        for st in ("active", "awaiting"):
            for cls in ("app", "hb", "tr"):
                for d in ("seq-too-low", "seq-missing", "sender-wrong", "target-missing"):
                    for err in ("reset", "pipe"):
                        cells.append(("B-drainfail", role, st, cls, d, err))
    # C': two disconnect causes overlapping in time: the first is suspended in the drain() of its Logout when the second arrives
    for role in ("acceptor", "initiator"):
        for first in ("app-disconnect-logout", "reader-integrity-logout"):
            for second in (("eof", "reset", "logout-in", "app-disconnect", "app-disconnect-logout") if first.startswith("app") else ("app-disconnect", "app-disconnect-logout")):
                cells.append(("C-overlap", role, first, second))
                # ... and the suspended drain() of the first then ends the way asyncio ends it for a transport closed under a writer
                cells.append(("C-overlap", role, first, second, "drain-raises"))
    # C'': the connection is taken down while the READER is suspended in the drain() of something it writes itself (the Logon reply,
    # a ResendRequest): what the reader does when it resumes must not undo the disconnect
    for role in ("acceptor", "initiator"):
        for first in ("reader-logon-reply", "reader-resend-request", "reader-testrequest-reply", "reader-resend-reply"):
            if first == "reader-logon-reply" and role != "acceptor":
                continue
            for second in ("app-disconnect", "app-disconnect-logout", "eof"):
                for after in ("drain-raises", "drain-returns"):
                    cells.append(("C-reader-parked", role, first, second, after))
    # D: a Logon as the first inbound message of a connection - the first connection of the object or a later one (the object keeps
    # whatever the earlier connection left behind: role, TestReqID, buffers): ACTIVE / on_logon / accepted application sends only
    # once BOTH Logons of this connection are on the wire (the peer's was read, our own was written)
    for kind in ("server", "generic", "client"):
        for prior in ("fresh", "after-own-logout-first", "after-refusing-a-logon", "after-session-eof", "after-session-logout"):
            if kind == "client" and prior != "fresh":
                continue      # (a client re-connects by itself and sends its own Logon from on_connect: the initiator cells cover it)
            for probe in ("logon", "logon+send", "app-first"):
                cells.append(("D-logon-first", kind, prior, probe))
    # C: other disconnect causes, then continuation
    for role in ("acceptor", "initiator"):
        for st in ("active", "awaiting"):
            for cause in ("logout-in", "eof", "reset", "oserror", "app-disconnect", "app-disconnect-logout", "watchdog", "bad-hb-id",
                          "logout-in+eof", "app-disconnect-twice", "eof+app-disconnect", "seq-too-low+eof"):
                if cause.startswith("seq-too-low") and st == "awaiting":
                    continue        # the B cells judge a too-low number while awaiting a resend
                cells.append(("C", role, st, cause))
    return cells


class Obs:
    """snapshot of everything the property talks about"""

    def __init__(self, ep, j):
        self.ep, self.j = ep, j
        self.take()

    def take(self):
        ep = self.ep
        st = self.j.create_or_load("PEER", "ME")
        self.rx = len(ep.rx)
        self.ev = len(ep.ev)
        self.tap = len(ep.vf_tap) if hasattr(ep, "vf_tap") else 0
        self.live_in, self.live_out = ep._session.next_num_in, ep._session.next_num_out
        self.st_in, self.st_out = st.next_num_in, st.next_num_out
        self.state = ep.connection_state
        self.disc = ep.disconnects


async def build(clock, role, st, hb=30, pre=3):
    """fresh endpoint in the wanted state.  Returns (ep, journaler, peer) or None if the state was not reached."""
    from asyncfix import FIXMessage, Journaler
    from asyncfix.connection import ConnectionState as CS
    from vf.sim import endpoint as E
    from vf.sim.net import settle
    j = Journaler()
    if st == "prelogon":
        s0 = j.create_or_load("PEER", "ME")
        j.set_seq_num(s0, next_num_out=4, next_num_in=5)
        j.conn.commit()
    ep = E.new_endpoint("server" if role == "acceptor" else "client", "ME", "PEER", j, hb=hb, name="ME")
    peer = E.Peer("PEER", "ME")
    peer.next_out = ep._session.next_num_in
    if st == "never":
        return ep, j, peer
    E.attach(ep, clock)
    E.start_reader(ep)
    if st in ("nce", "prelogon"):
        if st == "prelogon" and role == "initiator":
            await ep.send_msg(FIXMessage("A", {98: 0, 108: hb}))
        return ep, j, peer
    if role == "initiator":
        await ep.send_msg(FIXMessage("A", {98: 0, 108: hb}))
        if st == "logon_sent":
            return ep, j, peer
    if st == "logon_sent":
        return None
    ep.vf_reader.feed(peer.logon(hb=hb))
    await settle()
    if ep.connection_state != CS.ACTIVE:
        return None
    for k in range(pre):
        ep.vf_reader.feed(peer.frame("D", None, [(11, f"pre{k}")]))
    await settle()
    if st == "disconnected":
        await ep.disconnect(CS.DISCONNECTED_WCONN_TODAY)
        await settle()
        return ep, j, peer
    if st == "awaiting":
        peer.next_out += 2
        ep.vf_reader.feed(peer.frame("D", None, [(11, "trigger")]))
        peer.next_out -= 3       # the peer's "real" next number is the expected one again (it will resend)
        await settle()
        if ep.connection_state != CS.RESENDREQ_AWAITING:
            return None
    return ep, j, peer


def body_for(cls, s):
    mt, body = CLASSES[cls]
    return mt, [(t, (s + 3 if v == "NEW" else v)) for t, v in body]


def parse_new(ep, tap0):
    out = []
    for b in ep.vf_tap.frames(tap0):
        try:
            out.append(fixwire.parse(b))
        except fixwire.FrameError:
            out.append([("35", "?")])
    return out


async def cell_A_in(acc, clock, cell, cid):
    from asyncfix.connection import ConnectionState as CS
    from vf.sim import endpoint as E
    from vf.sim.net import settle, advance
    _, role, st, cls, rel = cell[:5]
    hd = cell[5] if len(cell) > 5 else None
    b = await build(clock, role, st)
    if b is None:
        acc.add("start_state_not_reached")
        return
    ep, j, peer = b
    o = Obs(ep, j)
    s = o.live_in + rel
    mt, body = body_for(cls, s)
    if hd is None:
        ep.vf_reader.feed(mkframe(mt, s, "PEER", "ME", body))
    else:
        hdr = {"seq-dup": [(49, "PEER"), (56, "ME"), (34, s), (34, s)], "seq-abc": [(49, "PEER"), (56, "ME"), (34, "abc")], "seq-empty": [(49, "PEER"), (56, "ME"), (34, "")],
               "sender-dup": [(49, "PEER"), (49, "PEER"), (56, "ME"), (34, s)], "target-dup-wrong": [(49, "PEER"), (56, "ME"), (56, "SOMEBODY"), (34, s)]}[hd]
        ep.vf_reader.feed(fixwire.build([(35, mt)] + hdr + [(52, "20240101-00:00:00.000")] + list(body)))
        acc.add("first_messages_with_an_unreadable_header")
    await settle()
    acc.oracle("A:inbound-before-logon")
    n = Obs(ep, j)
    new = parse_new(ep, o.tap)
    w = {"cell": cell, "events": ep.ev[o.ev:], "tap": [fixwire.get(f, 35) for f in new], "state": n.state.name,
         "in": [o.live_in, n.live_in, o.st_in, n.st_in], "swallowed": ep.vf_log.exceptions[-2:]}
    tag = f"{role}-{'awaiting-logon' if st == 'logon_sent' else 'before-logon'}"
    if n.rx != o.rx:
        return acc.violation(f"{tag}:delivers-app-message", f"{cls} handed to on_message before the Logon exchange completed", w, cid)
    if any(e[0] == "logon" for e in ep.ev[o.ev:]) or any(e == ("state", "ACTIVE") for e in ep.ev[o.ev:]) or n.state == CS.ACTIVE:
        return acc.violation(f"{tag}:activated-by-{cls}", f"connection became ACTIVE / on_logon fired on a {cls} without any Logon", w, cid)
    others = [fixwire.get(f, 35) for f in new if fixwire.get(f, 35) != "5"]
    if others or len(new) > 1:
        return acc.violation(f"{tag}:replies-to-{cls}", f"frames {[fixwire.get(f, 35) for f in new]} written in reply to a {cls} before Logon", w, cid)
    logout_refusal = cls == "logout" and st == "logon_sent" and rel == 0
    # unspecified: whether the Logout with which an acceptor refuses the Logon (the expected number) is counted; FIX counts it,
    # the statement's 'never advance the inbound counter' clause is about integrity failures
    if (n.live_in, n.st_in) != (o.live_in, o.st_in) and not logout_refusal:
        return acc.violation(f"{tag}:inbound-counter-moved-by-{'sequence-reset' if cls in ('gf', 'rs') else 'non-logon'}",
                             f"inbound counter live {o.live_in}->{n.live_in} stored {o.st_in}->{n.st_in} on a {cls} before Logon", w, cid)
    if n.state > CS.DISCONNECTED_BROKEN_CONN:
        return acc.violation(f"{tag}:not-dropped" + (":unreadable-header" if hd else ""), f"state {n.state.name} after a first inbound {cls}" + (f" whose header has {hd}" if hd else ""), w, cid)
    if n.disc != 1:
        return acc.violation(f"{tag}:on_disconnect-count", f"on_disconnect called {n.disc} times", w, cid)
    await continuation(acc, clock, ep, j, peer, cid, w, f"A-in/{cls}")


async def cell_D_logon_first(acc, clock, cell, cid):
    from asyncfix import FIXMessage, Journaler
    from asyncfix.connection import ConnectionState as CS
    from asyncfix.errors import FIXConnectionError
    from vf.sim import endpoint as E
    from vf.sim.net import settle, advance
    _, kind, prior, probe = cell
    j = Journaler()
    ep = E.new_endpoint(kind, "ME", "PEER", j, hb=30, name="ME")
    peer = E.Peer("PEER", "ME")
    if prior != "fresh":
        E.attach(ep, clock)
        E.start_reader(ep)
        try:
            if prior == "after-own-logout-first":
                await ep.disconnect(CS.DISCONNECTED_WCONN_TODAY, logout_message="not today")
            elif prior == "after-refusing-a-logon":
                ep.vf_reader.feed(mkframe("A", 1, "STRANGER", "ME", [(98, 0), (108, 30)]))
            else:
                ep.vf_reader.feed(peer.logon(hb=30))
                await settle()
                if ep.connection_state != CS.ACTIVE:
                    acc.add("start_state_not_reached")
                    return
                ep.vf_reader.feed(peer.frame("D", None, [(11, "first-connection")]))
                await settle()
                if prior == "after-session-eof":
                    ep.vf_reader.feed_eof()
                else:
                    ep.vf_reader.feed(peer.frame("5", None, [(58, "bye")]))
            await settle()
        except Exception as e:
            return acc.violation(f"D:prior-raised:{type(e).__name__}", f"{prior}: {e!r}", {"cell": cell}, cid)
        if ep.connection_state > CS.DISCONNECTED_BROKEN_CONN:
            acc.add("start_state_not_reached")
            return
        # the second connection of the same object
        E.attach(ep, clock)
        if ep.vf_read_task.done():
            E.start_reader(ep)
        else:
            await advance(1.1)
    else:
        E.attach(ep, clock)
        E.start_reader(ep)
    peer.next_out = ep._session.next_num_in
    o = Obs(ep, j)
    acc.oracle("D:logon-first")
    acc.add("logons_as_first_inbound_message" + ("_of_a_second_connection" if prior != "fresh" else ""))
    if probe == "app-first":
        ep.vf_reader.feed(peer.frame("D", None, [(11, "too-early")]))
    else:
        ep.vf_reader.feed(peer.logon(hb=30))
    await settle()
    sent = None
    if probe == "logon+send":
        try:
            await ep.send_msg(FIXMessage("D", {11: "mine", 55: "X"}))
            sent = "accepted"
        except FIXConnectionError:
            sent = "refused"
        except Exception as e:
            sent = f"raised {e!r}"
        await settle()
    n = Obs(ep, j)
    new = [fixwire.get(f, 35) for f in parse_new(ep, o.tap)]
    w = {"cell": cell, "events": ep.ev[o.ev:], "tap": new, "state": n.state.name, "role": ep.connection_role.name, "send": sent, "swallowed": ep.vf_log.exceptions[-2:]}
    tag = f"D:{'second' if prior != 'fresh' else 'first'}-connection"
    if probe == "app-first":
        if n.rx != o.rx or n.state == CS.ACTIVE or [x for x in new if x != "5"] or n.state > CS.DISCONNECTED_BROKEN_CONN:
            return acc.violation(f"{tag}:first-message-not-logon-not-dropped", f"{prior}: an application message first: delivered={n.rx != o.rx} state={n.state.name} written={new}", w, cid)
        return
    went_active = n.state >= CS.ACTIVE or any(e[0] == "logon" for e in ep.ev[o.ev:]) or any(e == ("state", "ACTIVE") for e in ep.ev[o.ev:])
    own_logon_first = bool(new) and new[0] == "A"
    if went_active and not own_logon_first:
        return acc.violation(f"{tag}:active-without-own-logon", f"{prior}: ACTIVE / on_logon although this side wrote {new} (no Logon first): the exchange has not completed", w, cid)
    if sent == "accepted" and not own_logon_first:
        return acc.violation(f"{tag}:send-accepted-without-logon-exchange", f"{prior}: application send accepted, frames written {new}", w, cid)
    if sent is not None and sent.startswith("raised"):
        return acc.violation(f"{tag}:send-raised", f"{prior}: {sent}", w, cid)
    if not went_active and n.state > CS.DISCONNECTED_BROKEN_CONN and n.state != CS.LOGON_INITIAL_RECV:
        return acc.violation(f"{tag}:neither-active-nor-dropped", f"{prior}: state {n.state.name} after a valid Logon, written {new}", w, cid)
    if went_active and kind != "client" and new.count("A") != 1:
        return acc.violation(f"{tag}:logon-reply-count", f"{prior}: {new.count('A')} Logon frames written", w, cid)


async def cell_A_badlogon(acc, clock, cell, cid):
    from asyncfix.connection import ConnectionState as CS
    from vf.sim.net import settle
    _, role, st, missing, rel, same_read = cell
    b = await build(clock, role, st)
    if b is None:
        acc.add("start_state_not_reached")
        return
    ep, j, peer = b
    o = Obs(ep, j)
    s = o.live_in
    body = [(t, v) for t, v in ((98, 0), (108, 30)) if str(t) not in missing.split("+")]
    if missing.startswith("dup"):        # the field is there twice: just as unusable
        body = [(98, 0), (108, 30), (int(missing[3:]), 30 if missing == "dup108" else 0)]
    if cell[0] == "A-logon-reply-fails":
        body = [(98, 0), (108, 30)]
        acc.add("logon_replies_that_could_not_be_sent")
        if missing == "journal-refuses":
            import sqlite3

            def refusing_persist(*a, **k):
                raise sqlite3.OperationalError("database or disk is full")
            j.persist_msg = refusing_persist
        else:
            async def drain_hook():
                raise BrokenPipeError("broken pipe")
            ep.vf_writer.drain_hook = drain_hook
    logon = mkframe("A", s, "PEER", "ME", body)
    app = mkframe("D", s + rel, "PEER", "ME", [(11, "early"), (55, "X")])
    if same_read:
        ep.vf_reader.feed(logon + app)
    else:
        ep.vf_reader.feed(logon)
        await settle()
        ep.vf_reader.feed(app)
    await settle()
    acc.oracle("A:inbound-before-logon")
    n = Obs(ep, j)
    w = {"cell": cell, "events": ep.ev[o.ev:], "tap": [fixwire.show(x)[:90] for x in ep.vf_tap.frames(o.tap)], "state": n.state.name,
         "in": [o.live_in, n.live_in, o.st_in, n.st_in], "swallowed": ep.vf_log.exceptions[-2:]}
    tag = f"{role}-{'awaiting-logon' if st == 'logon_sent' else 'before-logon'}"
    completed = any(e[0] == "logon" for e in ep.ev[o.ev:]) or any(e == ("state", "ACTIVE") for e in ep.ev[o.ev:])
    if n.rx != o.rx and not completed:
        return acc.violation(f"{tag}:delivers-app-message:after-a-logon-that-could-not-be-" + ("answered" if cell[0] == "A-logon-reply-fails" else "processed"),
                             f"Logon ({cell[0]}: {missing}) did not complete the exchange (state {n.state.name}), the application message behind it was handed to on_message", w, cid)


async def cell_A_send(acc, clock, cell, cid):
    from asyncfix import FIXMessage
    from asyncfix.errors import FIXConnectionError
    from asyncfix.message import MessageDirection as D
    from vf.sim.net import settle
    _, role, st, cls, _ = cell
    b = await build(clock, role, st)
    if b is None:
        acc.add("start_state_not_reached")
        return
    ep, j, peer = b
    o = Obs(ep, j)
    rows0 = j.recover_messages(ep._session, D.OUTBOUND, 0, sys.maxsize)
    acc.oracle("A:send-refused")
    w = {"cell": cell, "state": o.state.name}
    try:
        if cls == "test_req":
            await ep.send_test_req()
        else:
            mt, body = body_for(cls, 1)
            m = FIXMessage(mt, {t: v for t, v in body})
            if cls == "tr":
                ep._test_req_id = None
            await ep.send_msg(m)
        return acc.violation(f"send-accepted:{st}", f"send of {cls} accepted in state {o.state.name}", w, cid)
    except FIXConnectionError:
        pass
    except Exception as e:
        return acc.violation(f"send-raised-other:{type(e).__name__}", f"send of {cls} in {o.state.name} raised {e!r}", w, cid)
    await settle()
    n = Obs(ep, j)
    rows1 = j.recover_messages(ep._session, D.OUTBOUND, 0, sys.maxsize)
    if (n.tap, n.live_out, n.st_out, rows1) != (o.tap, o.live_out, o.st_out, rows0):
        return acc.violation(f"refused-send-has-effects:{st}", f"{cls} refused in {o.state.name} but tap {o.tap}->{n.tap} live_out {o.live_out}->{n.live_out} "
                             f"stored_out {o.st_out}->{n.st_out} rows {len(rows0)}->{len(rows1)}", w, cid)
    if n.state != o.state and st != "nce":
        return acc.violation(f"refused-send-changes-state:{st}", f"{o.state.name}->{n.state.name}", w, cid)


async def cell_A_send_in_logon(acc, clock, cell, cid):
    from asyncfix import FIXMessage
    from asyncfix.errors import FIXConnectionError
    from vf.sim.net import settle
    _, role, hook_state, cls, prior = cell
    from asyncfix.connection import ConnectionState as CS
    from vf.sim import endpoint as E
    from vf.sim.net import advance
    if prior == "generic":
        from asyncfix import Journaler
        j = Journaler()
        ep = E.new_endpoint("generic", "ME", "PEER", j, hb=30, name="ME")
        peer = E.Peer("PEER", "ME")
        E.attach(ep, clock)
        E.start_reader(ep)
    else:
        b = await build(clock, role, "nce")
        if b is None:
            return
        ep, j, peer = b
    if prior == "second":
        # the first connection came from a stranger and was refused with a Logout stating the reason (this side's first frame)
        ep.vf_reader.feed(mkframe("A", 1, "STRANGER", "ME", [(98, 0), (108, 30)]))
        await settle()
        if ep.connection_state > CS.DISCONNECTED_BROKEN_CONN:
            acc.add("start_state_not_reached")
            return
        E.attach(ep, clock)
        if ep.vf_read_task.done():
            E.start_reader(ep)
        else:
            await advance(1.1)
        peer.next_out = ep._session.next_num_in
        acc.add("sends_from_the_logon_callback_on_a_second_connection")
    tap_start = len(ep.vf_tap)
    res = []

    async def on_state(st):
        if st.name == hook_state and not res:
            mt, body = body_for(cls, 1)
            before = (len(ep.vf_tap), ep._session.next_num_out)
            try:
                await ep.send_msg(FIXMessage(mt, {t: v for t, v in body}))
                res.append(("accepted", before, (len(ep.vf_tap), ep._session.next_num_out)))
            except FIXConnectionError:
                res.append(("refused", before, (len(ep.vf_tap), ep._session.next_num_out)))
            except Exception as e:
                res.append((f"raised:{type(e).__name__}", before, None))
    ep.vf_hooks["on_state_change"] = on_state
    if role == "initiator":
        try:
            await ep.send_msg(FIXMessage("A", {98: 0, 108: 30}))
        except Exception as e:
            return acc.violation(f"first-logon-raised:{type(e).__name__}", repr(e), {"cell": cell}, cid)
    else:
        ep.vf_reader.feed(peer.logon())
    await settle()
    acc.oracle("A:send-refused")
    w = {"cell": cell, "result": [str(r) for r in res], "tap": [fixwire.show(x)[:90] for x in ep.vf_tap.frames(tap_start)], "state": ep.connection_state.name}
    if not res:
        acc.add("hook_state_not_reached")
        return
    r = res[0]
    if r[0] == "accepted":
        return acc.violation("send-accepted-before-logon-answered" + {0: "", "second": ":stale-role-from-an-earlier-connection", "generic": ":own-logon-callback-role-not-yet-set"}[prior], f"{cls} sent from inside the Logon processing ({hook_state}) was accepted and went out before the Logon reply", w, cid)
    if r[0].startswith("raised"):
        return acc.violation(f"send-raised-other:{r[0][7:]}", f"{cls} in {hook_state}", w, cid)
    if r[1] != r[2]:
        return acc.violation("refused-send-has-effects:logon_recv", f"tap/counter {r[1]} -> {r[2]}", w, cid)
    first = fixwire.parse(ep.vf_tap.frames(tap_start)[0]) if ep.vf_tap.frames(tap_start) else []
    if fixwire.get(first, 35) != "A":
        return acc.violation("first-frame-not-logon", f"first frame on the wire is 35={fixwire.get(first, 35)}", w, cid)


def defect_frame(d, cls, s, E_, order, possdup=False):
    mt, body = body_for(cls, s)
    sender, target, seq, bs = "PEER", "ME", s, b"FIX.4.4"
    if d == "sender-missing":
        sender = None
    elif d == "target-missing":
        target = None
    elif d == "both-missing":
        sender = target = None
    elif d == "sender-case":
        sender = "Peer"            # CompIDs are case-sensitive: another spelling is another party
    elif d == "target-case":
        target = "me"
    elif d == "sender-wrong":
        sender = "OTHER"
    elif d == "target-wrong":
        target = "OTHER"
    elif d == "swapped":
        sender, target = "ME", "PEER"
    elif d == "seq-missing":
        seq = None
    elif d == "seq-too-low":
        seq = E_ - 1
    elif d == "seq-too-low-dupflag-odd":
        seq = E_ - 1       # ... and a PossDupFlag that is neither Y nor N ("y", "1", "YES"): not a retransmission, so simply too low
    elif d.startswith("seq-spelled"):
        seq = {"seq-spelled-plus": f"+{s}", "seq-spelled-blank": f" {s}", "seq-spelled-underscore": f"0_{s}"}[d]
    elif d == "seq-one":
        seq = 1
    elif d == "beginstring-42":
        bs = b"FIX.4.2"
    elif d == "beginstring-fixt":
        bs = b"FIXT.1.1"
    if cls in ("gf", "rs") and d in ("seq-too-low", "seq-one", "seq-too-low-dupflag-odd"):
        return None      # SequenceReset below expectation: outside this property
    mt, body = body_for(cls, seq if isinstance(seq, int) else s)
    if d == "seq-too-low-dupflag-odd":
        body = [(43, ("y", "1", "YES", "true")[E_ % 4])] + list(body)
    return mkframe(mt, seq, sender, target, body, possdup, order, bs)


async def cell_B(acc, clock, cell, cid):
    from asyncfix.connection import ConnectionState as CS
    from vf.sim.net import settle, advance
    _, role, st, cls, d, order = cell
    b = await build(clock, role, st)
    if b is None:
        acc.add("start_state_not_reached")
        return
    ep, j, peer = b
    o = Obs(ep, j)
    E_ = o.live_in
    fr = defect_frame(d, cls, E_, E_, order)
    if fr is None:
        return
    ep.vf_reader.feed(fr)
    await settle()
    n = Obs(ep, j)
    new = parse_new(ep, o.tap)
    w = {"cell": cell, "frame": fixwire.show(fr), "events": ep.ev[o.ev:], "tap": [fixwire.show(x)[:120] for x in ep.vf_tap.frames(o.tap)],
         "state": [o.state.name, n.state.name], "in": [o.live_in, n.live_in, o.st_in, n.st_in], "swallowed": ep.vf_log.exceptions[-2:]}
    stname = {"prelogon": "before-logon", "active": "active", "awaiting": "awaiting-resend"}[st]
    if d.startswith("beginstring"):
        acc.oracle("B:wrong-beginstring")
        if (n.ev, n.tap, n.live_in, n.st_in, n.live_out, n.st_out, n.state) != (o.ev, o.tap, o.live_in, o.st_in, o.live_out, o.st_out, o.state):
            return acc.violation("wrong-beginstring-not-discarded", f"a {cls} frame with BeginString {d} had effects", w, cid)
        # the connection must still work: the same message with the right BeginString, in a later read, is processed normally
        if st != "prelogon" and cls in ("app", "exec", "custom"):
            ep.vf_reader.feed(defect_frame("none", cls, E_, E_, order))
            await settle()
            if len(ep.rx) != o.rx + 1 and st == "active":
                return acc.violation("wrong-beginstring-blocks-later-frames", "a valid frame after the discarded one was not delivered", w, cid)
        return
    acc.oracle("B:integrity")
    dk = {"seq-one": "seq-too-low"}.get(d, d)
    if d == "seq-too-low-dupflag-odd" and st == "prelogon":
        return
    if n.rx != o.rx:
        return acc.violation(f"{dk}:{stname}:delivered", f"{cls} with defect {d} handed to on_message", w, cid)
    if (n.live_in, n.st_in) != (o.live_in, o.st_in):
        return acc.violation(f"{dk}:{stname}:inbound-counter-advanced", f"live {o.live_in}->{n.live_in} stored {o.st_in}->{n.st_in}", w, cid)
    if any(e[0] in ("logon", "logout") for e in ep.ev[o.ev:]):
        return acc.violation(f"{dk}:{stname}:session-callback", f"callbacks {ep.ev[o.ev:]}", w, cid)
    if n.state > CS.DISCONNECTED_BROKEN_CONN:
        return acc.violation(f"{dk}:{stname}:not-disconnected", f"state {n.state.name} after {cls} with defect {d}", w, cid)
    if d in ("seq-missing", "seq-too-low", "seq-one", "seq-too-low-dupflag-odd"):
        last = new[-1] if new else None
        if last is None or fixwire.get(last, 35) != "5" or not fixwire.get(last, 58):
            return acc.violation(f"{dk}:{stname}:no-logout-with-reason", f"last frame on the tap: {fixwire.get(last, 35) if last else None}", w, cid)
    nonlogout = [fixwire.get(f, 35) for f in new if fixwire.get(f, 35) != "5"]
    if nonlogout:
        return acc.violation(f"{dk}:{stname}:replies", f"frames {nonlogout} written in reaction to a defective {cls}", w, cid)
    if n.disc != o.disc + 1:
        return acc.violation(f"{dk}:{stname}:on_disconnect-count", f"on_disconnect called {n.disc - o.disc} times", w, cid)
    await continuation(acc, clock, ep, j, peer, cid, w, f"B/{d}", same_read=(fr, cell))


async def cell_B_lowdup(acc, clock, cell, cid):
    from vf.sim.net import settle
    _, role, st, cls, back, order = cell
    b = await build(clock, role, st)
    if b is None:
        acc.add("start_state_not_reached")
        return
    ep, j, peer = b
    o = Obs(ep, j)
    E_ = o.live_in
    seq = 1 if back == "one" else E_ - back
    if seq < 1 or seq >= E_:
        return
    mt, body = body_for(cls, seq)
    fr = mkframe(mt, seq, "PEER", "ME", body, True, order)
    ep.vf_reader.feed(fr)
    await settle()
    n = Obs(ep, j)
    acc.oracle("B:too-low-possdup-never-delivered")
    w = {"cell": cell, "frame": fixwire.show(fr), "events": ep.ev[o.ev:], "tap": [fixwire.show(x)[:120] for x in ep.vf_tap.frames(o.tap)],
         "state": [o.state.name, n.state.name], "in": [o.live_in, n.live_in, o.st_in, n.st_in], "delivered": [list(map(str, r))[:3] for r in ep.rx[o.rx:]]}
    stname = {"active": "active", "awaiting": "awaiting-resend"}[st]
    if n.rx != o.rx:
        return acc.violation(f"seq-too-low-possdup:{stname}:delivered", f"{cls} numbered {seq} (expected {E_}) with PossDupFlag=Y handed to on_message", w, cid)
    if (n.live_in, n.st_in) != (o.live_in, o.st_in):
        return acc.violation(f"seq-too-low-possdup:{stname}:inbound-counter-moved", f"live {o.live_in}->{n.live_in} stored {o.st_in}->{n.st_in}", w, cid)
    if cls != "logout" and any(e[0] in ("logon", "logout") for e in ep.ev[o.ev:]):
        return acc.violation(f"seq-too-low-possdup:{stname}:session-callback", f"callbacks {ep.ev[o.ev:]}", w, cid)
    if n.disc not in (o.disc, o.disc + 1):
        return acc.violation(f"seq-too-low-possdup:{stname}:on_disconnect-count", f"on_disconnect called {n.disc - o.disc} times", w, cid)


async def cell_B_drainfail(acc, clock, cell, cid):
    from asyncfix.connection import ConnectionState as CS
    from vf.sim.net import settle, advance
    _, role, st, cls, d, err = cell
    b = await build(clock, role, st)
    if b is None:
        acc.add("start_state_not_reached")
        return
    ep, j, peer = b
    o = Obs(ep, j)
    E_ = o.live_in
    fr = defect_frame(d, cls, E_, E_, "std")
    if fr is None:
        return
    ep.vf_writer.drain_error = ConnectionResetError("peer gone") if err == "reset" else BrokenPipeError("peer gone")
    tail = mkframe("D", E_, "PEER", "ME", [(11, "same1")]) + mkframe("D", E_ + 1, "PEER", "ME", [(11, "same2")])
    ep.vf_reader.feed(fr + tail)
    await settle()
    ep.vf_reader.feed_eof()          # a peer that is gone also ends the stream
    await advance(1.5)
    acc.oracle("B:integrity")
    acc.oracle("C:disconnect-once")
    n = Obs(ep, j)
    w = {"cell": cell, "frame": fixwire.show(fr), "events": ep.ev[o.ev:], "tap": [fixwire.show(x)[:100] for x in ep.vf_tap.frames(o.tap)],
         "state": [o.state.name, n.state.name], "in": [o.live_in, n.live_in, o.st_in, n.st_in], "swallowed": ep.vf_log.exceptions[-2:]}
    if n.rx != o.rx or (n.live_in, n.st_in) != (o.live_in, o.st_in):
        return acc.violation("logout-write-fails:frames-processed-afterwards", f"{cls}/{d}: the Logout could not be written; afterwards rx {o.rx}->{n.rx}, inbound counter {o.live_in}->{n.live_in}", w, cid)
    if n.state > CS.DISCONNECTED_BROKEN_CONN:
        return acc.violation("logout-write-fails:not-disconnected", f"{cls}/{d}: state {n.state.name} after the Logout write failed and the stream ended", w, cid)
    if n.disc != o.disc + 1:
        return acc.violation("logout-write-fails:on_disconnect-count", f"on_disconnect called {n.disc - o.disc} times", w, cid)
    ep.vf_writer.drain_error = None
    await continuation(acc, clock, ep, j, peer, cid, w, f"B-drainfail/{d}")


async def continuation(acc, clock, ep, j, peer, cid, w, label, same_read=None):
    """After a disconnect: valid frames arriving later on the old stream, and application sends, have no effect."""
    from asyncfix import FIXMessage
    from asyncfix.errors import FIXConnectionError
    from vf.sim.net import settle, advance
    acc.oracle("C:silent-after-disconnect")
    o = Obs(ep, j)
    E_ = o.live_in
    tail = (mkframe("D", E_, "PEER", "ME", [(11, "after1")]) + mkframe("1", E_ + 1, "PEER", "ME", [(112, "after")]) +
            mkframe("A", E_ + 2, "PEER", "ME", [(98, 0), (108, 30)]) + mkframe("2", E_ + 3, "PEER", "ME", [(7, 1), (16, 0)]))
    ep.vf_reader.feed(tail)
    await advance(2.5)
    try:
        await ep.send_msg(FIXMessage("D", {11: "late"}))
        w2 = dict(w, after="send accepted")
        return acc.violation("send-accepted-after-disconnect", f"{label}: send_msg accepted in state {ep.connection_state.name}", w2, cid)
    except FIXConnectionError:
        pass
    except Exception as e:
        return acc.violation(f"send-after-disconnect-raised:{type(e).__name__}", f"{label}: send_msg in state {ep.connection_state.name} raised {e!r} "
                             "instead of refusing with FIXConnectionError", w, cid)
    n = Obs(ep, j)
    if (n.ev, n.tap, n.rx, n.live_in, n.st_in, n.live_out, n.st_out) != (o.ev, o.tap, o.rx, o.live_in, o.st_in, o.live_out, o.st_out):
        w2 = dict(w, after_events=ep.ev[o.ev:], after_tap=[fixwire.show(x)[:100] for x in ep.vf_tap.frames(o.tap)])
        return acc.violation("activity-after-disconnect:later-read", f"{label}: frames arriving after the disconnect caused callbacks/frames/counter changes", w2, cid)


async def cell_B_same_read(acc, clock, cell, cid):
    """Same as cell_B, but valid frames follow the defective one in the SAME read: they must be ignored too."""
    from asyncfix.connection import ConnectionState as CS
    from vf.sim.net import settle
    _, role, st, cls, d, order = cell
    if d.startswith("beginstring"):
        return
    b = await build(clock, role, st)
    if b is None:
        return
    ep, j, peer = b
    o = Obs(ep, j)
    E_ = o.live_in
    fr = defect_frame(d, cls, E_, E_, order)
    if fr is None:
        return
    tail = mkframe("D", E_, "PEER", "ME", [(11, "same1")]) + mkframe("1", E_ + 1, "PEER", "ME", [(112, "same")]) + mkframe("D", E_ + 2, "PEER", "ME", [(11, "same2")])
    ep.vf_reader.feed(fr + tail)
    await settle()
    acc.oracle("C:silent-after-disconnect")
    acc.oracle("C:disconnect-once")
    n = Obs(ep, j)
    new = parse_new(ep, o.tap)
    w = {"cell": cell, "frame": fixwire.show(fr), "events": ep.ev[o.ev:], "tap": [fixwire.show(x)[:120] for x in ep.vf_tap.frames(o.tap)],
         "state": [o.state.name, n.state.name], "in": [o.live_in, n.live_in, o.st_in, n.st_in]}
    if n.state > CS.DISCONNECTED_BROKEN_CONN:
        return      # cell_B reports this
    if n.rx != o.rx or (n.live_in, n.st_in) != (o.live_in, o.st_in):
        return acc.violation("activity-after-disconnect:same-read", f"frames buffered behind the defective {cls}/{d} were processed after the disconnect", w, cid)
    if [fixwire.get(f, 35) for f in new if fixwire.get(f, 35) != "5"] or len(new) > 1:
        return acc.violation("activity-after-disconnect:same-read", f"frames written after the disconnect: {[fixwire.get(f, 35) for f in new]}", w, cid)
    if n.disc != o.disc + 1:
        return acc.violation("on_disconnect-not-exactly-once", f"on_disconnect called {n.disc - o.disc} times", w, cid)


async def cell_C_overlap(acc, clock, cell, cid):
    import asyncio
    from asyncfix.connection import ConnectionState as CS
    from vf.sim.net import settle
    from vf.sim.sched import Sched
    _, role, first, second = cell[:4]
    drain_raises = len(cell) > 4
    b = await build(clock, role, "active")
    if b is None:
        acc.add("start_state_not_reached")
        return
    ep, j, peer = b
    o = Obs(ep, j)
    E_ = o.live_in
    sched = Sched()
    writer0 = ep.vf_writer

    async def drain_hook():
        await sched.wait("drain")
        if drain_raises and writer0.closed:
            raise ConnectionResetError("Connection lost")
    ep.vf_writer.drain_hook = drain_hook
    tasks = []
    loop = asyncio.get_running_loop()

    async def guarded(coro):
        try:
            await coro
        except Exception as e:
            ep.ev.append(("disconnect-raised", type(e).__name__))
    if first == "app-disconnect-logout":
        tasks.append(loop.create_task(guarded(ep.disconnect(CS.DISCONNECTED_WCONN_TODAY, logout_message="end of day"))))
    else:
        ep.vf_reader.feed(mkframe("D", max(1, E_ - 2), "PEER", "ME", [(11, "low")]))
    await settle()
    parked = len(sched.gates)
    if second == "eof":
        ep.vf_reader.feed_eof()
    elif second == "reset":
        ep.vf_writer.close_error = ConnectionResetError("reset")
        ep.vf_reader.set_exception(ConnectionResetError("reset"))
    elif second == "logout-in":
        ep.vf_reader.feed(mkframe("5", E_, "PEER", "ME", [(58, "bye")]))
    elif second == "app-disconnect":
        tasks.append(loop.create_task(guarded(ep.disconnect(CS.DISCONNECTED_BROKEN_CONN))))
    elif second == "app-disconnect-logout":
        tasks.append(loop.create_task(guarded(ep.disconnect(CS.DISCONNECTED_WCONN_TODAY, logout_message="again"))))
    await settle()
    for _ in range(10):
        gs = sched.enabled_gates()
        if not gs:
            break
        sched.release(gs[0])
        await settle()
    acc.oracle("C:disconnect-once")
    n = Obs(ep, j)
    w = {"cell": cell, "parked_when_second_cause_arrived": parked, "events": ep.ev[o.ev:], "tap": [fixwire.show(x)[:90] for x in ep.vf_tap.frames(o.tap)],
         "state": [o.state.name, n.state.name]}
    if parked == 0:
        acc.add("overlap_not_reached")
    if n.state > CS.DISCONNECTED_BROKEN_CONN:
        return acc.violation("overlapping-disconnects:not-disconnected", f"{first} then {second}: state {n.state.name}", w, cid)
    if n.disc != o.disc + 1:
        return acc.violation("overlapping-disconnects:on_disconnect-not-exactly-once", f"{first} suspended in drain(), then {second}: on_disconnect called {n.disc - o.disc} times", w, cid)
    if n.rx != o.rx:
        return acc.violation("overlapping-disconnects:delivery", "a message was delivered", w, cid)
    writer0.drain_hook = None
    if getattr(ep, "vf_writer", None) is not None:
        ep.vf_writer.drain_hook = None
    await continuation(acc, clock, ep, j, peer, cid, w, f"C-overlap/{first}/{second}")


async def cell_C_reader_parked(acc, clock, cell, cid):
    import asyncio
    from asyncfix.connection import ConnectionState as CS
    from vf.sim.net import settle
    from vf.sim.sched import Sched
    _, role, first, second, after = cell
    b = await build(clock, role, "nce" if first == "reader-logon-reply" else "active")
    if b is None:
        acc.add("start_state_not_reached")
        return
    ep, j, peer = b
    o = Obs(ep, j)
    E_ = o.live_in
    sched = Sched()
    writer0 = ep.vf_writer

    async def drain_hook():
        await sched.wait("drain")
        if writer0.closed and after == "drain-raises":
            raise ConnectionResetError("Connection lost")
    ep.vf_writer.drain_hook = drain_hook
    if first == "reader-resend-reply":
        # the reader answers a ResendRequest with several retransmissions and is parked in the drain() of the first one
        from asyncfix import FIXMessage
        ep.vf_writer.drain_hook = None
        for k in range(3):
            await ep.send_msg(FIXMessage("D", {11: f"mine{k}", 55: "X"}))
        ep.vf_writer.drain_hook = drain_hook
        o = Obs(ep, j)
        ep.vf_reader.feed(mkframe("2", E_, "PEER", "ME", [(7, 1), (16, 0)]))
    elif first == "reader-logon-reply":
        ep.vf_reader.feed(mkframe("A", E_, "PEER", "ME", [(98, 0), (108, 30)]))
    elif first == "reader-resend-request":
        ep.vf_reader.feed(mkframe("D", E_ + 3, "PEER", "ME", [(11, "ahead")]))
    else:
        ep.vf_reader.feed(mkframe("1", E_, "PEER", "ME", [(112, "PING")]))
    await settle()
    parked = len(sched.gates)
    tasks = []

    async def guarded(coro):
        try:
            await coro
        except Exception as e:
            ep.ev.append(("disconnect-raised", type(e).__name__))
    loop = asyncio.get_running_loop()
    if second == "eof":
        ep.vf_reader.feed_eof()
    elif second == "app-disconnect":
        tasks.append(loop.create_task(guarded(ep.disconnect(CS.DISCONNECTED_BROKEN_CONN))))
    else:
        tasks.append(loop.create_task(guarded(ep.disconnect(CS.DISCONNECTED_WCONN_TODAY, logout_message="closing"))))
    await settle()
    for _ in range(12):
        gs = sched.enabled_gates()
        if not gs:
            break
        sched.release(gs[0])
        await settle()
    if second == "eof":
        await settle()
    acc.oracle("C:disconnect-once")
    n = Obs(ep, j)
    evs = ep.ev[o.ev:]
    w = {"cell": cell, "reader_parked_in_drain": parked, "events": evs, "tap": [fixwire.show(x)[:90] for x in ep.vf_tap.frames(o.tap)], "state": [o.state.name, n.state.name],
         "swallowed": ep.vf_log.exceptions[-2:]}
    if parked == 0:
        acc.add("overlap_not_reached")
        return
    acc.add("disconnects_while_the_reader_was_parked_in_its_own_drain")
    if n.state > CS.DISCONNECTED_BROKEN_CONN:
        return acc.violation("disconnect-undone-by-the-suspended-reader", f"{second} while the reader was suspended in the drain() of its {first[7:]}: the connection ends in "
                             f"state {n.state.name} with writer {'present' if ep._socket_writer is not None else 'gone'}", w, cid)
    if n.disc != o.disc + 1:
        return acc.violation("disconnect-undone-by-the-suspended-reader:on_disconnect-count", f"on_disconnect called {n.disc - o.disc} times", w, cid)
    idx = max((i for i, e in enumerate(evs) if e[0] == "disconnect"), default=-1)
    if idx >= 0 and any(e[0] == "should_replay" for e in evs[idx + 1:]):
        return acc.violation("activity-after-disconnect:should_replay-after-on_disconnect", f"after on_disconnect the application is still asked about journaled messages: {evs[idx + 1:][:4]}", w, cid)
    later = [e for e in evs[idx + 1:] if e[0] in ("logon", "msg") or (e[0] == "state" and e[1] not in ("DISCONNECTED_BROKEN_CONN", "DISCONNECTED_WCONN_TODAY", "DISCONNECTED_NOCONN_TODAY"))]
    if idx >= 0 and later:
        return acc.violation("activity-after-disconnect:suspended-reader-resumes", f"after on_disconnect: {later}", w, cid)


async def cell_C(acc, clock, cell, cid):
    from asyncfix.connection import ConnectionState as CS
    from vf.sim import endpoint as E
    from vf.sim.net import settle, advance
    _, role, st, cause = cell
    hb = 5 if cause == "watchdog" else 30
    b = await build(clock, role, st, hb=hb)
    if b is None:
        acc.add("start_state_not_reached")
        return
    ep, j, peer = b
    if cause in ("watchdog",):
        E.start_heartbeat(ep)
    o = Obs(ep, j)
    E_ = o.live_in
    tail = mkframe("D", E_ + 1, "PEER", "ME", [(11, "same1")]) + mkframe("1", E_ + 2, "PEER", "ME", [(112, "same")])
    parts = cause.split("+")
    for p in parts:
        if p == "logout-in":
            ep.vf_reader.feed(mkframe("5", E_, "PEER", "ME", [(58, "bye")]) + tail)
        elif p == "seq-too-low":
            ep.vf_reader.feed(mkframe("D", max(1, E_ - 2), "PEER", "ME", [(11, "low")]) + tail)
        elif p == "bad-hb-id":
            await ep.send_test_req()
            await settle()
            ep.vf_reader.feed(mkframe("0", E_, "PEER", "ME", [(112, "99")]) + tail)
        elif p == "eof":
            ep.vf_reader.feed_eof()
        elif p == "reset":
            ep.vf_writer.close_error = ConnectionResetError("reset by peer")      # connection_lost(exc): wait_closed() raises it too
            ep.vf_reader.set_exception(ConnectionResetError("reset by peer"))
        elif p == "oserror":
            ep.vf_reader.set_exception(BrokenPipeError("broken pipe"))
        elif p == "app-disconnect":
            await ep.disconnect(CS.DISCONNECTED_WCONN_TODAY)
        elif p == "app-disconnect-logout":
            await ep.disconnect(CS.DISCONNECTED_WCONN_TODAY, logout_message="end of day")
        elif p == "app-disconnect-twice":
            await ep.disconnect(CS.DISCONNECTED_WCONN_TODAY, logout_message="end of day")
            await ep.disconnect(CS.DISCONNECTED_BROKEN_CONN, logout_message="again")
        elif p == "watchdog":
            await advance(hb * 3 + 3)
    await settle()
    acc.oracle("C:disconnect-once")
    n = Obs(ep, j)
    w = {"cell": cell, "events": ep.ev[o.ev:], "tap": [fixwire.show(x)[:120] for x in ep.vf_tap.frames(o.tap)], "state": [o.state.name, n.state.name]}
    if n.state > CS.DISCONNECTED_BROKEN_CONN:
        return acc.violation(f"not-disconnected-after:{cause}", f"state {n.state.name}", w, cid)
    if n.disc != o.disc + 1:
        return acc.violation("on_disconnect-not-exactly-once", f"cause {cause}: on_disconnect called {n.disc - o.disc} times", w, cid)
    if cause.startswith("logout-in") or cause.startswith("seq-too-low") or cause == "bad-hb-id":
        if n.rx != o.rx:
            return acc.violation("activity-after-disconnect:same-read", f"cause {cause}: frames buffered behind it were delivered", w, cid)
        new = parse_new(ep, o.tap)
        kinds = [fixwire.get(f, 35) for f in new]
        allowed = {"logout-in": [], "seq-too-low": ["5"], "bad-hb-id": ["1", "5"]}[parts[0] if parts[0] != "bad-hb-id" else "bad-hb-id"]
        if kinds != allowed and not (parts[0] == "logout-in" and kinds == ["5"]):
            return acc.violation("activity-after-disconnect:same-read", f"cause {cause}: tap shows {kinds}", w, cid)
    await continuation(acc, clock, ep, j, peer, cid, w, f"C/{cause}")
    E.stop_tasks(ep)


async def random_cell(acc, clock, rnd, cid):
    """random defect x class x state with a random body/order/possdup decoration and a random continuation"""
    role = rnd.choice(["acceptor", "initiator"])
    st = rnd.choice(["active", "awaiting", "active", "prelogon"])
    cls = "logon" if st == "prelogon" else rnd.choice(list(CLASSES))
    d = rnd.choice(DEFECTS)
    order = rnd.choice(ORDERS)
    cell = ("B", role, st, cls, d, order)
    if rnd.random() < 0.5:
        await cell_B(acc, clock, cell, cid)
    else:
        await cell_B_same_read(acc, clock, cell, cid)
    return cell


def run_shard(spec, acc):
    from asyncfix.connection import AsyncFIXConnection as C
    from asyncfix.session import FIXSession
    from vf.core.reach import Reach
    from vf.sim import endpoint as E
    from vf.sim import vclock
    from vf.sim.net import SpinAbort
    acc.reach_obj = Reach({"send_msg": C.send_msg, "_validate_integrity": C._validate_integrity, "_process_message": C._process_message,
                           "disconnect": C.disconnect, "_process_logout": C._process_logout, "validate_comp_ids": FIXSession.validate_comp_ids}).start()
    cells = all_cells()
    shard, ns = spec["shard"], spec["nshards"]
    from vf.sim.net import install_open_connection
    install_open_connection(None)      # a client's reconnect attempt after a disconnect is refused

    async def go(clock):
        for idx, cell in enumerate(cells):
            if idx % ns != shard:
                continue
            cid = "cell:" + "/".join(str(x) for x in cell)
            if not acc.want(cid):
                continue
            try:
                if cell[0] == "A-in":
                    await cell_A_in(acc, clock, cell, cid)
                elif cell[0] in ("A-badlogon", "A-logon-reply-fails"):
                    await cell_A_badlogon(acc, clock, cell, cid)
                elif cell[0] == "A-send":
                    await cell_A_send(acc, clock, cell, cid)
                elif cell[0] == "A-send-in-logon":
                    await cell_A_send_in_logon(acc, clock, cell, cid)
                elif cell[0] == "D-logon-first":
                    await cell_D_logon_first(acc, clock, cell, cid)
                elif cell[0] == "C-reader-parked":
                    await cell_C_reader_parked(acc, clock, cell, cid)
                elif cell[0] == "C-overlap":
                    await cell_C_overlap(acc, clock, cell, cid)
                elif cell[0] == "B-drainfail":
                    await cell_B_drainfail(acc, clock, cell, cid)
                elif cell[0] == "B-lowdup":
                    await cell_B_lowdup(acc, clock, cell, cid)
                elif cell[0] == "B":
                    await cell_B(acc, clock, cell, cid)
                    if acc.want(cid):
                        await cell_B_same_read(acc, clock, cell, cid)
                else:
                    await cell_C(acc, clock, cell, cid)
            except SpinAbort as e:
                acc.violation("spin", str(e), {"cell": cell}, cid)
            acc.case_disjoint()
            acc.addmap("cells_by_part", cell[0])
            if idx % 97 == 0:
                acc.sample({"cell": cell}, 3)
            for t in [t for t in __import__("asyncio").all_tasks() if t is not __import__("asyncio").current_task()]:
                t.cancel()
        for c in range(spec["nrand"]):
            cid = f"r:{shard}:{c}"
            if not acc.want(cid):
                continue
            rnd = random.Random(f"{spec['seed']}:C11:{shard}:{c}")
            try:
                cell = await random_cell(acc, clock, rnd, cid)
            except SpinAbort as e:
                acc.violation("spin", str(e), {}, cid)
                cell = None
            acc.case(("r", cell, c))
            for t in [t for t in __import__("asyncio").all_tasks() if t is not __import__("asyncio").current_task()]:
                t.cancel()
    vclock.run(go)
    acc.reach_obj.stop()
