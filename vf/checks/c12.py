"""C12  The heartbeat watchdog detects dead peers and spares live ones (virtual-time scenarios, timed tap as oracle input).

The real heartbeat_timer_task and socket_read_task of a real logged-on connection run on the virtual-time loop; a scripted
peer (frames from the independent framer) is silent / chatty / answers TestRequests after a chosen delay / answers wrongly.
Every write() is tapped with its virtual timestamp; verdicts are computed from tap, feed times, state and callbacks.
"""
import asyncio
import random

from vf.ref import fixwire

META = {
    "level": "exploration",
    "rule": ("scenario grid: heartbeat interval h in {1,2,3,5,10,30} (thorough: 1..12, 15, 20, 30, 45, 60) x role x tick phase (4 / 10 offsets in "
             "[0,1)) x peer pattern {silent from logon, burst then silent, periodic traffic with period 0.5h / h-1.5 / h-1.2 (must survive: a frame at least every h/2 or every gap < h-1.1), "
             "periodic Heartbeats every h + answering, silent but answering every TestRequest after 0 / 0.25h / 0.5h / h / 1.5h / 2h-2.2 s "
             "(those <= 2h-2.1 must survive 12h), wrong / off-by-one / non-numeric / empty TestReqID, Heartbeat without id then right answer, "
             "answer twice, application send_test_req while one is pending, inbound TestRequests with hostile ids}; plus random mixtures; plus all interleavings (controlled scheduler, first 7/10 decisions) of two application send_test_req calls, the heartbeat task's TestRequest and a sender; "
             "times are virtual seconds, tick granularity 1 s is explicit slack; distinct = (h, role, phase, pattern, parameters); "
             "non-trivial = scenario in which the watchdog had to act (TestRequest sent)"),
    "assumptions": ["'about one interval' = TestRequest within [h-1, h+1] s after the last inbound frame; 'about three intervals' = disconnected by 3h+2",
                    "'never disconnected' is restated as: not within 12 intervals (bounded horizon)",
                    "answers delayed between 2h-2.1 and 2h+2 s, periodic traffic slower than h-1.1 without answers, and sessions that are not ACTIVE are unspecified, except that an inbound TestRequest, the echo of an outstanding TestReqID and a wrong TestReqID are also judged when they arrive numbered ahead of an open gap"],
}
REQUIRED_ORACLES = ["silent:testrequest-time", "silent:disconnect-time", "live:survives", "echo:testreqid", "one-outstanding", "wrong-id:logout"]
REQUIRED_COUNTERS = ["early_probes_refused", "probe_writes_refused", "renumberings_while_a_testrequest_was_outstanding", "orders_sent_into_the_silence"]
NSHARDS = 16
HB = {"quick": [1, 2, 3, 5, 10, 30], "thorough": [1, 2, 3, 4, 5, 6, 7, 8, 9, 10, 11, 12, 15, 20, 30, 45, 60]}
PHASES = {"quick": [0.0, 0.25, 0.5, 0.9], "thorough": [0.0, 0.1, 0.2, 0.3, 0.4, 0.5, 0.6, 0.7, 0.8, 0.95]}
HOSTILE_IDS = ["abc", "0", "007", "1000000", "x=y", "a b", "T" * 60, "-1", "1e3", "~!@#"]


def scenarios(tier):
    out = []
    for h in HB[tier]:
        for role in ("acceptor", "initiator"):
            for ph in PHASES[tier]:
                out.append((h, role, ph, "silent", 0))
                if h >= 3:       # the burst (0.6 s) must be over before the first TestRequest can be due
                    out.append((h, role, ph, "burst-silent", 3))
                for name, p in (("0.5h", 0.5 * h), ("h-1.5", h - 1.5), ("h-1.2", h - 1.2)):
                    if p > 0.05:
                        out.append((h, role, ph, "periodic", round(p, 3)))
                out.append((h, role, ph, "hb-every-h+answer", 0))
                for d in (0, 0.25 * h, 0.5 * h, h, 1.5 * h, 2 * h - 2.2):
                    if 0 <= d <= 2 * h - 2.1 or d == 0:
                        out.append((h, role, ph, "answer", round(d, 3)))
                for k in ("plus1", "zero", "alpha", "empty", "old", "plus-sign", "leading-zero", "trailing-space", "underscore"):
                    out.append((h, role, ph, "wrong-id", k))
                out.append((h, role, ph, "noid-then-answer", 0))
                out.append((h, role, ph, "answer-twice", 0))
                out.append((h, role, ph, "app-test-req", 0))
                out.append((h, role, ph, "inbound-testreq", 0))
                if ph in (0.0, 0.5):
                    # the application probed too early (before the Logon exchange completed): the probe was refused, nothing went out -
                    # so nothing is outstanding, and the watchdog treats the session like any other
                    out.append((h, role, ph, "early-probe:silent", 0))
                    out.append((h, role, ph, "early-probe:periodic", round(0.5 * h, 3)))
                    out.append((h, role, ph, "early-probe:answer", round(0.25 * h, 3)))
                if ph in (0.0, 0.5):
                    # a dead peer whose socket also refuses the TestRequest: silent, and the write of the probe fails
                    for fault in ("reset-once", "reset-always", "pipe-always", "runtime-always"):
                        out.append((h, role, ph, "silent-write-fails", fault))
                    out.append((h, role, ph, "silent-drain-blocks", 0))
                    # the application renumbers the session (reset_seq_num) while a TestRequest is outstanding: a different feature used
                    # inside the probe's window changes nothing about the probe
                    out.append((h, role, ph, "reset-while-outstanding", 0))
                    # a silent peer while the local application keeps sending (what goes OUT says nothing about the peer being alive)
                    for every in (0.3, 0.45):
                        out.append((h, role, ph, "silent-while-sending", round(every * h, 3)))
                    # the same obligations while a sequence gap is open (the peer's frames arrive numbered ahead)
                    out.append((h, role, ph, "gap:testreq-ahead", 0))
                    out.append((h, role, ph, "gap:answer-ahead", 0))
                    out.append((h, role, ph, "gap:wrong-id-ahead", 0))
    return out


def plan(tier, seed):
    return [{"shard": i, "nshards": NSHARDS, "nrand": 30 if tier == "quick" else 600} for i in range(NSHARDS)]


class Scn:
    """one running scenario: endpoint + scripted peer reacting to tapped frames"""

    def __init__(self, acc, clock, h, role, cid, label):
        self.acc, self.clock, self.h, self.role, self.cid, self.label = acc, clock, h, role, cid, label
        self.feeds = []          # (t, kind)
        self.sent_tr = []        # (t, id) TestRequests tapped
        self.outstanding = []    # ids sent and not yet matched by a fed Heartbeat with the same id
        self.max_outstanding = 0
        self.answer = None       # callable(id) -> None, invoked on each tapped TestRequest
        self.violated = False
        self.tdisc = None

    async def start(self, phase, early_probe=False):
        from asyncfix import FIXMessage, Journaler
        from asyncfix.connection import ConnectionState as CS
        from vf.sim import endpoint as E
        from vf.sim.net import settle
        self.j = Journaler()
        self.ep = ep = E.new_endpoint("server" if self.role == "acceptor" else "client", "ME", "PEER", self.j, hb=self.h, name="ME")
        self.peer = E.Peer("PEER", "ME")
        E.attach(ep, self.clock, sink=self.on_write)
        orig = ep.on_disconnect

        async def on_disc():
            if self.tdisc is None:
                self.tdisc = self.clock.now
            await orig()
        ep.on_disconnect = on_disc
        E.start_reader(ep)
        E.start_heartbeat(ep)
        if phase:
            await asyncio.sleep(phase)
        if self.role == "initiator":
            await ep.send_msg(FIXMessage("A", {98: 0, 108: self.h}))
        if early_probe:
            n0 = len(ep.vf_tap)
            try:
                await ep.send_test_req()
                self.acc.add("early_probes_accepted")
            except Exception:
                self.acc.add("early_probes_refused")
            if len(ep.vf_tap) != n0:
                self.acc.add("early_probes_written")
        self.feed("A", [(98, 0), (108, self.h)])
        await settle()
        return ep.connection_state == CS.ACTIVE

    def on_write(self, data):
        try:
            f = fixwire.parse(data)
        except fixwire.FrameError:
            return
        if fixwire.get(f, 35) == "1":
            tid = fixwire.get(f, 112)
            self.sent_tr.append((self.clock.now, tid))
            self.outstanding.append(tid)
            self.max_outstanding = max(self.max_outstanding, len(self.outstanding))
            if self.answer is not None:
                self.answer(tid)

    def feed(self, mt, body=()):
        if mt == "0":
            tid = fixwire.get([(str(t), str(v)) for t, v in body], 112)
            if tid is not None and tid in self.outstanding:
                self.outstanding.remove(tid)
        self.feeds.append((self.clock.now, mt))
        self.ep.vf_reader.feed(self.peer.frame(mt, None, list(body)))

    def later(self, delay, fn):
        asyncio.get_running_loop().call_later(delay, fn)

    def last_feed(self):
        return self.feeds[-1][0]

    def disconnected(self):
        from asyncfix.connection import ConnectionState as CS
        return self.ep.connection_state <= CS.DISCONNECTED_BROKEN_CONN

    def witness(self, extra=None):
        t0 = self.feeds[0][0] if self.feeds else 0
        w = {"scenario": self.label, "h": self.h, "role": self.role,
             "feeds": [(round(t - t0, 3), k) for t, k in self.feeds[-12:]],
             "tap": [(round(t - t0, 3), fixwire.show(b)[:90]) for t, b in self.ep.vf_tap.items[-10:]],
             "state": self.ep.connection_state.name, "t_disconnect": None if self.tdisc is None else round(self.tdisc - t0, 3),
             "swallowed": self.ep.vf_log.exceptions[-2:]}
        if extra:
            w.update(extra)
        return w

    def V(self, key, what, extra=None):
        if not self.violated:
            self.violated = True
            self.acc.violation(key + getattr(self, "key_suffix", ""), what, self.witness(extra), self.cid)

    def stop(self):
        from vf.sim import endpoint as E
        E.stop_tasks(self.ep)


async def run_until(s, horizon, step=0.5):
    """advance virtual time in small steps until the horizon or a disconnect"""
    from vf.sim.net import settle
    t_end = s.clock.now + horizon
    while s.clock.now < t_end and not s.disconnected():
        await asyncio.sleep(min(step, t_end - s.clock.now))
    await settle()


def check_outstanding(s):
    s.acc.oracle("one-outstanding")
    if s.max_outstanding > 1:
        s.V("two-testrequests-outstanding", f"{s.max_outstanding} TestRequests were outstanding at the same time: {s.sent_tr[-4:]}")


async def scenario(acc, clock, sc, cid, rnd=None):
    from asyncfix.errors import FIXConnectionError
    from vf.sim.net import settle
    h, role, phase, kind, par = sc
    s = Scn(acc, clock, h, role, cid, list(sc))
    early = kind.startswith("early-probe:")
    if early:
        kind = kind.split(":", 1)[1]
        s.key_suffix = ":after-a-refused-early-probe"
    try:
        if not await s.start(phase, early_probe=early):
            acc.add("start_state_not_reached")
            return False
        eps = 1e-6
        if kind in ("silent", "burst-silent"):
            if kind == "burst-silent":
                for k in range(par):
                    await asyncio.sleep(0.2)
                    s.feed("D", [(11, f"b{k}")])
                await settle()
            t0 = s.last_feed()
            await run_until(s, 3 * h + 6)
            acc.oracle("silent:testrequest-time")
            if not s.sent_tr:
                s.V("silent:no-testrequest", f"peer silent for {3 * h + 6}s, no TestRequest was sent")
            else:
                dt = s.sent_tr[0][0] - t0
                if not (h - 1 - eps <= dt <= h + 1 + eps):
                    s.V("silent:testrequest-" + ("early" if dt < h - 1 else "late"), f"TestRequest {dt:.3f}s after the last inbound frame, h={h}")
            acc.oracle("silent:disconnect-time")
            if not s.disconnected():
                s.V("silent:not-disconnected", f"peer silent for {3 * h + 6}s: state {s.ep.connection_state.name}")
            elif s.tdisc is not None:
                dt = s.tdisc - t0
                if dt > 3 * h + 2 + eps:
                    s.V("silent:disconnect-late", f"disconnected {dt:.3f}s after the last inbound frame, h={h}")
                elif s.sent_tr and s.tdisc < s.sent_tr[0][0]:
                    s.V("silent:disconnect-before-testrequest", f"disconnected at {dt:.3f}s before any TestRequest")
                elif dt < h - eps:
                    s.V("silent:disconnect-early", f"disconnected {dt:.3f}s after the last inbound frame, h={h}")
            if s.ep.disconnects != 1 and s.disconnected():
                s.V("watchdog:on_disconnect-count", f"on_disconnect called {s.ep.disconnects} times")
            check_outstanding(s)
            return True
        if kind == "reset-while-outstanding":
            t0 = s.last_feed()
            t_lim = s.clock.now + h + 2
            while not s.sent_tr and not s.disconnected() and s.clock.now < t_lim:
                await asyncio.sleep(0.25)          # until the probe goes out
            if not s.sent_tr:
                s.V("silent:no-testrequest", f"no TestRequest within {h + 2}s of silence")
                return True
            if s.disconnected():
                return True
            n_before = len(s.sent_tr)
            try:
                await s.ep.reset_seq_num()
            except Exception as e:
                s.V(f"reset_seq_num-raised:{type(e).__name__}", repr(e))
                return True
            acc.add("renumberings_while_a_testrequest_was_outstanding")
            await run_until(s, 2 * h + 6)
            acc.oracle("one-outstanding")
            if len(s.sent_tr) > n_before and s.max_outstanding > 1:
                s.V("two-testrequests-outstanding:after-reset_seq_num", f"a second TestRequest went out after reset_seq_num() while the first was unanswered: {s.sent_tr[-3:]}")
            acc.oracle("silent:disconnect-time")
            if not s.disconnected():
                s.V("silent:not-disconnected:after-reset_seq_num", f"peer silent for {3 * h + 8}s in total, reset_seq_num() called while the probe was outstanding: "
                    f"state {s.ep.connection_state.name}")
            elif s.tdisc is not None and s.tdisc - t0 > 3 * h + 2 + eps:
                s.V("silent:disconnect-late", f"disconnected {s.tdisc - t0:.3f}s after the last inbound frame, h={h}")
            return True
        if kind == "silent-while-sending":
            from asyncfix import FIXMessage
            t0 = s.last_feed()
            t_end = s.clock.now + 3 * h + 6
            k = 0
            while s.clock.now < t_end and not s.disconnected():
                await asyncio.sleep(min(par, t_end - s.clock.now))
                if s.disconnected():
                    break
                k += 1
                try:
                    await s.ep.send_msg(FIXMessage("D", {11: f"out{k}", 55: "X"}))
                except FIXConnectionError:
                    break
            await settle()
            acc.oracle("silent:testrequest-time")
            acc.add("orders_sent_into_the_silence", k)
            if not s.sent_tr:
                s.V("silent:no-testrequest:while-sending", f"peer silent for {3 * h + 6}s while the application sent an order every {par}s: no TestRequest was sent")
            else:
                dt = s.sent_tr[0][0] - t0
                if not (h - 1 - eps <= dt <= h + 1 + eps):
                    s.V("silent:testrequest-" + ("early" if dt < h - 1 else "late") + ":while-sending", f"TestRequest {dt:.3f}s after the last inbound frame, h={h}")
            acc.oracle("silent:disconnect-time")
            if not s.disconnected():
                s.V("silent:not-disconnected:while-sending", f"peer silent for {3 * h + 6}s (application sending every {par}s): state {s.ep.connection_state.name}")
            elif s.tdisc is not None and s.tdisc - t0 > 3 * h + 2 + eps:
                s.V("silent:disconnect-late", f"disconnected {s.tdisc - t0:.3f}s after the last inbound frame, h={h}")
            check_outstanding(s)
            return True
        if kind == "silent-write-fails":
            exc = {"reset": ConnectionResetError("connection reset by peer"), "pipe": BrokenPipeError("broken pipe"),
                   "runtime": RuntimeError("transport is closing")}[par.split("-")[0]]
            once = par.endswith("once")
            state = {"n": 0, "t": None, "same_t": 0}
            from vf.sim.net import SpinAbort
            from vf.sim import endpoint as E_

            async def drain_hook():
                data = s.ep.vf_tap.items[-1][1] if s.ep.vf_tap.items else b""
                if b"\x0135=1\x01" in data and (not once or state["n"] == 0):
                    state["n"] += 1
                    state["same_t"] = state["same_t"] + 1 if state["t"] == s.clock.now else 0
                    state["t"] = s.clock.now
                    if state["same_t"] > 300:
                        raise SpinAbort(f"{state['same_t']} TestRequests attempted without time passing")
                    raise exc
                if not once and state["n"]:
                    raise exc          # once the socket has refused a write it refuses all of them
            s.ep.vf_writer.drain_hook = drain_hook
            t0 = s.last_feed()
            await run_until(s, 3 * h + 6)
            acc.oracle("silent:disconnect-time")
            acc.add("probe_writes_refused", state["n"])
            fail = E_.task_failure(s.ep)
            if fail is not None:
                s.V("watchdog-spins:testrequest-write-failed", f"the heartbeat task busy-loops after a failed TestRequest write: {fail}")
            elif not state["n"]:
                s.V("silent:no-testrequest", f"peer silent for {3 * h + 6}s, no TestRequest was attempted")
            elif not s.disconnected():
                s.V("silent:not-disconnected:testrequest-write-failed", f"peer silent for {3 * h + 6}s and the TestRequest's write failed ({par}): "
                    f"state {s.ep.connection_state.name}, {state['n']} refused writes")
            elif s.tdisc is not None and s.tdisc - t0 > 3 * h + 2 + eps:
                s.V("silent:disconnect-late", f"disconnected {s.tdisc - t0:.3f}s after the last inbound frame, h={h}")
            if s.ep.disconnects > 1:
                s.V("watchdog:on_disconnect-count", f"on_disconnect called {s.ep.disconnects} times")
            return True
        if kind == "silent-drain-blocks":
            # a dead peer that has also stopped reading: the TestRequest is written, its drain() never returns (the socket buffer is
            # full).  The watchdog must not hang on its own probe: the connection is dropped by about three intervals all the same
            never = asyncio.Event()
            blocked = {"n": 0}

            async def drain_hook():
                data = s.ep.vf_tap.items[-1][1] if s.ep.vf_tap.items else b""
                if b"\x0135=1\x01" in data:
                    blocked["n"] += 1
                    await never.wait()
            s.ep.vf_writer.drain_hook = drain_hook
            t0 = s.last_feed()
            await run_until(s, 3 * h + 6)
            acc.oracle("silent:disconnect-time")
            acc.add("probes_whose_drain_never_returned", blocked["n"])
            if not blocked["n"]:
                s.V("silent:no-testrequest", f"peer silent for {3 * h + 6}s, no TestRequest was attempted")
            elif not s.disconnected():
                s.V("silent:not-disconnected:watchdog-blocked-in-drain", f"peer silent for {3 * h + 6}s, the TestRequest's drain() never returned: state {s.ep.connection_state.name}")
            elif s.tdisc is not None and s.tdisc - t0 > 3 * h + 2 + eps:
                s.V("silent:disconnect-late", f"disconnected {s.tdisc - t0:.3f}s after the last inbound frame, h={h}")
            if s.ep.disconnects > 1:
                s.V("watchdog:on_disconnect-count", f"on_disconnect called {s.ep.disconnects} times")
            never.set()
            return True
        if kind == "periodic":
            p = par
            horizon = 12 * h
            n = int(horizon / p) + 1
            for k in range(n):
                await asyncio.sleep(p)
                if s.disconnected():
                    break
                s.feed(rnd.choice(["D", "0", "8"]) if rnd else ("D" if k % 2 else "0"), [(11, f"p{k}")] if True else [])
            await settle()
            acc.oracle("live:survives")
            if s.disconnected():
                s.V("live:disconnected-despite-traffic", f"peer sent a frame every {p}s (h={h}) and was disconnected")
            check_outstanding(s)
            return bool(s.sent_tr)
        if kind in ("answer", "hb-every-h+answer", "answer-twice", "noid-then-answer"):
            d = par if kind == "answer" else 0

            def ans(tid):
                def go():
                    if s.disconnected():
                        return
                    if kind == "noid-then-answer":
                        s.feed("0", [])
                    s.feed("0", [(112, tid)])
                    if kind == "answer-twice":
                        s.feed("0", [(112, tid)])
                if d > 0:
                    s.later(d, go)
                else:
                    s.later(0, go)
            s.answer = ans
            horizon = 12 * h
            if kind == "hb-every-h+answer":
                n = 12
                for k in range(n):
                    await asyncio.sleep(h)
                    if s.disconnected():
                        break
                    s.feed("0", [])
                await settle()
            else:
                await run_until(s, horizon)
            acc.oracle("live:survives")
            if s.disconnected():
                s.V(f"live:disconnected-despite-answers:{kind}", f"every TestRequest was answered after {d}s (h={h}) and the peer was disconnected",
                    {"testrequests": [(round(t - s.feeds[0][0], 3), i) for t, i in s.sent_tr[-5:]]})
            elif not s.sent_tr and kind != "hb-every-h+answer":
                s.V("live:no-testrequest-when-idle", f"{horizon}s passed with inbound traffic only as answers, no TestRequest was ever sent")
            check_outstanding(s)
            return True
        if kind == "wrong-id":
            fired = {}

            def ans(tid):
                if fired:
                    return
                fired["t"] = clock.now
                bad = {"plus1": str(int(tid) + 1) if tid.isdigit() else tid + "1", "zero": "0", "alpha": "abc", "empty": "", "old": str(int(tid) - 100) if tid.isdigit() else "1",
                       # strings that int() reads as the same number are still other strings: not the TestReqID that was sent
                       "plus-sign": "+" + tid, "leading-zero": "0" + tid, "trailing-space": tid + " ", "underscore": tid[:1] + "_" + tid[1:]}[par]
                s.later(0.3, lambda: (not s.disconnected()) and s.feed("0", [(112, bad)]))
            s.answer = ans
            await run_until(s, h + 3)
            await settle()
            acc.oracle("wrong-id:logout")
            if not fired:
                s.V("silent:no-testrequest", "no TestRequest within h+3 s")
                return True
            frames = s.ep.vf_tap.items
            last = fixwire.parse(frames[-1][1]) if frames else []
            if not s.disconnected():
                s.V("wrong-id:not-disconnected", f"Heartbeat echoing a wrong TestReqID ({par}) left the session in {s.ep.connection_state.name}")
            elif fixwire.get(last, 35) != "5":
                s.V("wrong-id:no-logout", f"session ended without a Logout after a wrong TestReqID ({par}); last frame type {fixwire.get(last, 35)}")
            elif s.tdisc is not None and s.tdisc - fired["t"] > 0.3 + 1e-3:
                s.V("wrong-id:logout-late", f"disconnect {s.tdisc - fired['t']:.3f}s after the TestRequest, wrong answer came at +0.3")
            check_outstanding(s)
            return True
        if kind == "app-test-req":
            res = []

            def ans(tid):
                s.later(0.2, lambda: (not s.disconnected()) and s.feed("0", [(112, tid)]))
            s.answer = ans
            t_end = clock.now + 4 * h + 2
            while clock.now < t_end and not s.disconnected():
                await asyncio.sleep(0.37 if rnd is None else rnd.uniform(0.05, 1.5))
                try:
                    await s.ep.send_test_req()
                    res.append("ok")
                except FIXConnectionError:
                    res.append("refused")
                except Exception as e:
                    s.V(f"send_test_req-raised:{type(e).__name__}", repr(e))
                    break
            await settle()
            acc.oracle("live:survives")
            if s.disconnected():
                s.V("live:disconnected-despite-answers:app-test-req", "application TestRequests answered in 0.2 s each; the peer was disconnected")
            check_outstanding(s)
            acc.addmap("app_test_req_results", "ok", res.count("ok"))
            acc.addmap("app_test_req_results", "refused", res.count("refused"))
            return True
        if kind == "gap:testreq-ahead":
            await asyncio.sleep(0.2)
            s.peer.next_out += 2                      # two of the peer's frames were lost: everything now arrives numbered ahead
            s.feed("D", [(11, "late")])
            await settle()
            tap0 = len(s.ep.vf_tap)
            s.feed("1", [(112, "GAPTR")])
            await settle()
            acc.oracle("echo:testreqid")
            new = [fixwire.parse(b) for b in s.ep.vf_tap.frames(tap0)]
            hb_ = [f for f in new if fixwire.get(f, 35) == "0"]
            if not hb_:
                s.V("echo:no-reply:while-gap-open", "an inbound TestRequest that arrived while a sequence gap was open was not answered")
            elif fixwire.get(hb_[0], 112) != "GAPTR":
                s.V("echo:testreqid-differs", f"answered with {fixwire.get(hb_[0], 112)!r}")
            return True
        if kind in ("gap:answer-ahead", "gap:wrong-id-ahead"):
            state = {"n": 0}

            def ans(tid):
                state["n"] += 1
                first = state["n"] == 1

                def go():
                    if s.disconnected():
                        return
                    if first:
                        e0 = s.peer.next_out
                        s.peer.next_out += 2              # the answer is numbered ahead: two frames before it were lost
                        s.feed("0", [(112, tid if kind == "gap:answer-ahead" else "424242")])
                        if kind == "gap:answer-ahead":
                            # the peer then closes the gap the connection asks about
                            nxt = s.peer.next_out
                            s.later(0.2, lambda: (not s.disconnected()) and s.ep.vf_reader.feed(s.peer.frame("4", e0, [(123, "Y"), (36, nxt)], possdup=True)))
                    else:
                        s.feed("0", [(112, tid)])
                s.later(0.1, go)
            s.answer = ans
            if kind == "gap:answer-ahead":
                await run_until(s, 12 * h)
                acc.oracle("live:survives")
                if s.disconnected():
                    s.V("live:disconnected-despite-answers:answer-numbered-ahead", f"the first TestRequest was answered with the right TestReqID in a frame numbered ahead (gap open), "
                        f"the gap was then filled and every later TestRequest answered; the peer was disconnected (h={h})")
                check_outstanding(s)
            else:
                await run_until(s, h + 3)
                acc.oracle("wrong-id:logout")
                frames = s.ep.vf_tap.items
                kinds_ = [fixwire.get(fixwire.parse(b), 35) for _, b in frames]
                if not s.sent_tr:
                    s.V("silent:no-testrequest", "no TestRequest within h+3 s")
                elif not s.disconnected() or "5" not in kinds_:
                    s.V("wrong-id:no-logout:while-gap-open", f"a Heartbeat echoing a wrong TestReqID, numbered ahead, did not end the session with a Logout (state {s.ep.connection_state.name})")
            return True
        if kind == "inbound-testreq":
            ids = list(HOSTILE_IDS)
            if rnd:
                rnd.shuffle(ids)
            # every TestRequest is answered, also one that repeats an id seen before (a peer may well number its probes 1,1,1...)
            seq_ids = ids[:5] + [ids[4], ids[0], ids[0]]
            for k, tid in enumerate(seq_ids):
                await asyncio.sleep(0.4 if h > 1 else 0.1)
                if s.disconnected():
                    break
                tap0 = len(s.ep.vf_tap)
                s.feed("1", [(112, tid)])
                await settle()
                acc.oracle("echo:testreqid")
                new = [fixwire.parse(b) for b in s.ep.vf_tap.frames(tap0)]
                if not new:
                    s.V("echo:no-reply", f"inbound TestRequest {tid!r} was not answered")
                    break
                first = new[0]
                if fixwire.get(first, 35) != "0":
                    s.V("echo:other-reply-first", f"first reply to TestRequest {tid!r} is 35={fixwire.get(first, 35)}")
                    break
                got = fixwire.get(first, 112)
                if got != tid.encode("utf-8").decode("latin-1"):
                    s.V("echo:testreqid-differs", f"TestRequest {tid!r} answered with TestReqID {got!r}")
                    break
                if len([f for f in new if fixwire.get(f, 35) == "0"]) != 1:
                    s.V("echo:answered-more-than-once", f"{len(new)} frames in reply to one TestRequest")
                    break
            return False
        raise AssertionError(kind)
    finally:
        s.stop()


def random_scenario(rnd):
    h = rnd.choice([1, 2, 3, 4, 5, 7, 10, 13, 30])
    role = rnd.choice(["acceptor", "initiator"])
    ph = round(rnd.random(), 3)
    k = rnd.random()
    if k < 0.2:
        return (h, role, ph, "burst-silent", rnd.randrange(1, 4)) if h >= 3 else (h, role, ph, "silent", 0)
    if k < 0.45:
        hi = max(h - 1.15, 0.5 * h)      # must-survive zone: a frame at least every h/2, or with every gap < h - 1.1
        if hi <= 0.06:
            return (h, role, ph, "silent", 0)
        return (h, role, ph, "periodic", round(rnd.uniform(0.05, hi), 3))
    if k < 0.75:
        hi = 2 * h - 2.1
        return (h, role, ph, "answer", round(rnd.uniform(0, hi), 3) if hi > 0 else 0)
    if k < 0.85:
        return (h, role, ph, "wrong-id", rnd.choice(["plus1", "zero", "alpha", "empty", "old", "plus-sign", "leading-zero", "trailing-space", "underscore"]))
    if k < 0.93:
        return (h, role, ph, "app-test-req", 0)
    return (h, role, ph, rnd.choice(["answer-twice", "noid-then-answer", "hb-every-h+answer", "inbound-testreq"]), 0)


async def concurrent_test_requests(acc, clock, spec):
    """At most one TestRequest outstanding under every interleaving of two application send_test_req calls, the heartbeat
    task's own TestRequest and an application sender (controlled scheduler shared with C14, scenario S7)."""
    from vf.checks import c14
    from vf.sim.sched import DFS
    shard, ns = spec["shard"], spec["nshards"]
    dfs = DFS(7 if spec["tier"] == "quick" else 10, 400 if spec["tier"] == "quick" else 6000, part=shard, nparts=ns)
    while (pre := dfs.pop()) is not None:
        trace, obs = await c14.run_schedule("S7", clock, list(pre))
        if not dfs.push(pre, trace) or trace is None or "error" in obs:
            continue
        cid = "sched:S7:" + ".".join(map(str, pre))
        acc.case_disjoint(nontrivial=bool(obs.get("overlap")))
        acc.oracle("one-outstanding")
        acc.add("one_outstanding_schedules")
        trs = [b for b in obs["frames"] if fixwire.get(fixwire.parse(b), 35) == "1"]
        if len(trs) > 1:       # the scripted peer never answers in this scenario: every TestRequest on the tap is outstanding
            acc.violation("two-testrequests-outstanding", f"{len(trs)} TestRequests written while none was answered :: schedule "
                          + " ".join(lab for _, _, lab in trace)[:300],
                          {"schedule": [lab for _, _, lab in trace], "wire": [fixwire.show(b)[:100] for b in obs["frames"]], "results": obs["results"]}, cid)


def run_shard(spec, acc):
    from asyncfix.connection import AsyncFIXConnection as C
    from vf.core.reach import Reach
    from vf.sim import vclock
    from vf.sim.net import SpinAbort, install_open_connection
    acc.reach_obj = Reach({"heartbeat_timer_task": C.heartbeat_timer_task, "send_test_req": C.send_test_req,
                           "_process_testrequest": C._process_testrequest, "_process_heartbeat": C._process_heartbeat}).start()
    install_open_connection(None)
    scs = scenarios(spec["tier"])
    shard, ns = spec["shard"], spec["nshards"]

    async def go(clock):
        oc = acc.only_case
        if oc is None or oc.startswith("sched:"):
            await concurrent_test_requests(acc, clock, spec)
        for idx, sc in enumerate(scs):
            if idx % ns != shard:
                continue
            cid = "sc:" + "/".join(str(x) for x in sc)
            if not acc.want(cid):
                continue
            try:
                nt = await scenario(acc, clock, sc, cid)
            except SpinAbort as e:
                acc.violation("spin", str(e), {"scenario": sc}, cid)
                nt = True
            acc.case(sc, nontrivial=bool(nt))
            acc.addmap("scenarios_by_kind", sc[3])
            if idx % 211 == 0:
                acc.sample({"scenario": sc}, 3)
        for c in range(spec["nrand"]):
            cid = f"r:{shard}:{c}"
            if not acc.want(cid):
                continue
            rnd = random.Random(f"{spec['seed']}:C12:{shard}:{c}")
            sc = random_scenario(rnd)
            try:
                nt = await scenario(acc, clock, sc, cid, rnd)
            except SpinAbort as e:
                acc.violation("spin", str(e), {"scenario": sc}, cid)
                nt = True
            acc.case(("r",) + sc, nontrivial=bool(nt))
            acc.addmap("scenarios_by_kind", sc[3])
    vclock.run(go)
    acc.reach_obj.stop()
