"""C13  The journal is a faithful per-session, per-direction message store (reference-model monitor)."""
import random
import sys

META = {
    "level": "exploration",
    "rule": ("random operation sequences (40 ops) over 2-4 sessions incl. mirror-image and SQL-special CompIDs on one in-memory and one "
             "file-backed Journaler: create_or_load, persist (fresh / duplicate / out of order; numbers sparse, descending, up to 2^63-1; "
             "payloads arbitrary bytes incl. NUL, non-UTF-8, 100 kB), set_seq_num (out / in / both / omitted -> inherited from the session "
             "object), recover_messages (empty, inverted, open-ended, string-typed bounds), recover_msg, sessions(), get_all_msgs filters; "
             "after every operation return value / exception class compared with a dict model, full comparison of every session on both "
             "load paths every 5 steps; distinct = hash of the op sequence; non-trivial = sequence has a duplicate store, a renumbering "
             "and >= 2 sessions"),
    "assumptions": ["numbers >= 2^63 are outside the domain for stored messages (SQLite cannot store them); a renumbering to such a number or to <= 0 must be refused as a whole"],
}
REQUIRED_ORACLES = ["op-outcome", "full-compare", "two-load-paths"]
NSHARDS = 16
N = {"quick": 120, "thorough": 2500}
PAIRS = [("A", "B"), ("B", "A"), ("A", "A"), ("x'y", "z;--"), ("T\"q", "S%_"), ("", "E")]


def plan(tier, seed):
    return [{"shard": i, "n": N[tier], "ops": 40 if tier == "quick" else 60} for i in range(NSHARDS)]


def frame(seq, rnd):
    r = rnd.random()
    if r < 0.02:
        pay = bytes(rnd.randrange(256) for _ in range(1000)) * 100
    else:
        pay = bytes(rnd.choice([0, 1, 65, 255, 10, 61, 0x80, 0xC3]) if rnd.random() < .3 else rnd.randrange(32, 127) for _ in range(rnd.randrange(0, 30)))
    pay = pay.replace(b"\x0134=", b"\x0135=")
    return b"8=FIX.4.4\x019=5\x0135=0\x0134=%d\x01" % seq + pay + b"\x0110=000\x01"


def run_seq(acc, rnd, nops, cid, filename):
    from asyncfix import Journaler
    from asyncfix.errors import DuplicateSeqNoError
    from asyncfix.message import MessageDirection as D
    j = Journaler(filename)
    model = {}
    sess = {}
    npairs = rnd.randrange(2, 5)
    pairs = rnd.sample(PAIRS[:5], npairs)
    trace = []
    feats = set()

    def V(key, what):
        acc.violation(key, what, {"trace": trace[-25:], "file_backed": filename is not None}, cid)

    def rows(m, d):
        return [v for (dd, q), v in sorted(m["rows"].items(), key=lambda kv: (kv[0][0], kv[0][1])) if dd == d.value]

    def full_compare():
        acc.oracle("full-compare")
        try:
            ss = j.sessions()
        except Exception as e:
            V("sessions-raised", f"{type(e).__name__}: {e}")
            ss = {}
        for p, m in model.items():
            acc.oracle("two-load-paths")
            try:
                l = j.create_or_load(*p)
            except Exception as e:
                V("create_or_load-raised", f"{type(e).__name__}: {e}")
                continue
            if (l.next_num_in, l.next_num_out) != (m["in"], m["out"]):
                V("load-counters", f"create_or_load{p} -> in/out {(l.next_num_in, l.next_num_out)} model {(m['in'], m['out'])}")
            if l.key != sess[p].key:
                V("session-key-changed", f"{p}: {l.key} vs {sess[p].key}")
            x = ss.get(p)
            if x is None:
                V("sessions-missing", f"{p} not in sessions()")
            else:
                if x.next_num_in != m["in"]:
                    V("sessions-next-in", f"sessions(){p}.next_num_in={x.next_num_in} model {m['in']}")
                if x.next_num_out != m["out"]:
                    if x.next_num_out == m["out"] - 1:
                        V("sessions-next-out-off-by-one", f"sessions(){p}.next_num_out={x.next_num_out}, create_or_load says {m['out']}")
                    else:
                        V("sessions-next-out", f"sessions(){p}.next_num_out={x.next_num_out} model {m['out']}")
            for d in (D.INBOUND, D.OUTBOUND):
                try:
                    got = j.recover_messages(sess[p], d, 0, sys.maxsize)
                except Exception as e:
                    V("recover-raised", f"{type(e).__name__}: {e}")
                    continue
                if got != rows(m, d):
                    V("rows-differ", f"{p} {d.name}: {len(got)} rows vs model {len(rows(m, d))}")
        if len(ss) != len(model):
            V("sessions-count", f"{len(ss)} sessions listed, {len(model)} created")
        # get_all_msgs without filter = all rows
        try:
            allm = j.get_all_msgs()
            exp = sorted((q, v, dd, sess[p].key) for p, m in model.items() for (dd, q), v in m["rows"].items())
            if sorted(allm) != exp:
                V("get_all_msgs", f"{len(allm)} rows vs model {len(exp)}")
        except Exception as e:
            V("get_all_msgs-raised", f"{type(e).__name__}: {e}")

    for step in range(nops):
        op = rnd.choice(["load", "persist", "persist", "persist", "persist", "set", "recover", "recover1", "dup", "getall", "sessions"])
        p = rnd.choice(pairs)
        if op == "load" or p not in sess:
            try:
                s = j.create_or_load(*p)
            except Exception as e:
                V("create_or_load-raised", f"{type(e).__name__}: {e}")
                return
            m = model.setdefault(p, {"in": 1, "out": 1, "rows": {}})
            trace.append(("load", p, s.next_num_in, s.next_num_out))
            acc.oracle("op-outcome")
            if (s.next_num_in, s.next_num_out) != (m["in"], m["out"]):
                V("load-counters", f"create_or_load{p} -> {(s.next_num_in, s.next_num_out)} model {(m['in'], m['out'])}")
            if p in sess and s.key != sess[p].key:
                V("session-key-changed", f"{p}")
            sess[p] = s
            continue
        s = sess[p]
        m = model[p]
        if op in ("persist", "dup"):
            d = rnd.choice([D.INBOUND, D.OUTBOUND])
            if op == "dup" and m["rows"]:
                dd, seq = rnd.choice(sorted(m["rows"]))
                d = D(dd)
                feats.add("dup")
            else:
                seq = rnd.choice([1, 2, 3, 5, 8, 13, 100, 2 ** 40, 2 ** 62, rnd.randrange(1, 30), (m["out"] if d == D.OUTBOUND else m["in"])])
            fr = frame(seq, rnd)
            try:
                j.persist_msg(fr, s, d)
                err = None
            except DuplicateSeqNoError:
                err = "dup"
            except Exception as e:
                err = type(e).__name__
            exp = "dup" if (d.value, seq) in m["rows"] else None
            trace.append(("persist", p, d.name, seq, err))
            acc.oracle("op-outcome")
            if err != exp:
                V("persist-outcome", f"persist {d.name} {seq}: got {err} expected {exp}")
            if exp is None and err is None:
                m["rows"][(d.value, seq)] = fr
                if d == D.INBOUND:
                    m["in"] = seq + 1
                else:
                    m["out"] = seq + 1
        elif op == "set" and rnd.random() < 0.12:
            # a call the journal refuses (a counter below 1): refused means nothing changed - not the store, and not the session object
            # the caller holds, from which the next valid call would write
            s.next_num_in, s.next_num_out = m["in"], m["out"]
            no, ni = rnd.choice([(5, 0), (0, 3), (-1, None), (None, 0), (7, -2),
                                 # numbers SQLite cannot store: refused by the database in the middle of the call - nothing of the call may stay
                                 (2 ** 63 + 5, None), (None, 2 ** 63 + 1), (3, 2 ** 64), (2 ** 70, 2), (None, 2 ** 63), (2 ** 63, None), (2 ** 63, 4)])
            if no is not None and no > 2 ** 62 or ni is not None and ni > 2 ** 62:
                acc.add("renumberings_refused_by_the_database")
            before_obj = (s.next_num_out, s.next_num_in)
            try:
                j.set_seq_num(s, next_num_out=no, next_num_in=ni)
                V("set_seq_num-accepted-a-counter-below-one", f"set_seq_num(out={no}, in={ni}) returned")
                continue
            except Exception:
                pass
            acc.oracle("op-outcome")
            trace.append(("set-refused", p, no, ni))
            if (s.next_num_out, s.next_num_in) != before_obj:
                V("refused-set-changed-the-session-object", f"set_seq_num(out={no}, in={ni}) was refused but the session object went from (out, in)={before_obj} "
                  f"to {(s.next_num_out, s.next_num_in)}: the next valid call stores the refused number")
                s.next_num_out, s.next_num_in = before_obj
        elif op == "set":
            no = rnd.choice([None, 1, 2, 5, 9, 50, 2 ** 41])
            ni = rnd.choice([None, 1, 3, 6, 50])
            mode = rnd.choice(["tracked", "stale"])
            if mode == "tracked":
                # keep the object in step with the store, as a connection does
                s.next_num_in, s.next_num_out = m["in"], m["out"]
            eff_out = no if no is not None else s.next_num_out
            eff_in = ni if ni is not None else s.next_num_in
            try:
                j.set_seq_num(s, next_num_out=no, next_num_in=ni)
            except Exception as e:
                V("set_seq_num-raised", f"{type(e).__name__}: {e}")
                continue
            feats.add("set")
            trace.append(("set", p, no, ni, mode, eff_out, eff_in))
            acc.oracle("op-outcome")
            if (s.next_num_out, s.next_num_in) != (eff_out, eff_in):
                V("set-object-counters", f"object has {(s.next_num_out, s.next_num_in)} expected {(eff_out, eff_in)}")
            m["out"], m["in"] = eff_out, eff_in
            m["rows"] = {k: v for k, v in m["rows"].items()
                         if not ((k[0] == D.INBOUND.value and k[1] >= eff_in) or (k[0] == D.OUTBOUND.value and k[1] >= eff_out))}
        elif op in ("recover", "recover1"):
            d = rnd.choice([D.INBOUND, D.OUTBOUND])
            lo = rnd.choice([0, 1, 2, 5, 7, 9, 10, 95, -3, 2 ** 40])
            hi = rnd.choice([0, 1, 4, 9, 10, 15, 105, 1000, sys.maxsize, 2 ** 63 - 1, lo])
            if op == "recover1":
                hi = lo
            typed = rnd.random() < 0.25
            mixed = typed and rnd.random() < 0.3        # one bound a string (as it comes out of a FIX tag), the other an int
            try:
                if op == "recover1" and not typed:
                    g = j.recover_msg(s, d, lo)
                    got = [] if g is None else [g]
                else:
                    got = j.recover_messages(s, d, str(lo) if typed else lo, (hi if mixed else str(hi)) if typed else hi)
            except Exception as e:
                V("recover-raised", f"{type(e).__name__}: {e}")
                continue
            exp = [v for (dd, q), v in sorted(m["rows"].items()) if dd == d.value and lo <= q <= hi]
            trace.append(("recover", p, d.name, lo, hi, typed, len(got)))
            acc.oracle("op-outcome")
            if got != exp:
                V("recover-range" + ("-string-bounds" if typed else ""), f"{d.name} [{lo},{hi}] -> {len(got)} rows, model {len(exp)}")
        elif op == "getall":
            d = rnd.choice([None, D.INBOUND, D.OUTBOUND])
            fs = rnd.choice([None, [s], [s.key], list(sess.values())])
            try:
                got = j.get_all_msgs(fs, d)
            except Exception as e:
                V("get_all_msgs-raised", f"{type(e).__name__}: {e}")
                continue
            keys = None if not fs else {x.key if hasattr(x, "key") else x for x in fs}
            exp = sorted((q, v, dd, sess[pp].key) for pp, mm in model.items() for (dd, q), v in mm["rows"].items()
                         if (keys is None or sess[pp].key in keys) and (d is None or dd == d.value))
            acc.oracle("op-outcome")
            if sorted(got) != exp:
                V("get_all_msgs", f"filter -> {len(got)} rows vs model {len(exp)}")
        elif op == "sessions":
            full_compare()
        if step % 5 == 4:
            full_compare()
    full_compare()
    if len(sess) >= 2:
        feats.add("multi")
    del j
    return trace, feats


def run_shard(spec, acc):
    import os
    import tempfile
    from asyncfix.journaler import Journaler
    from vf.core.reach import Reach
    acc.reach_obj = Reach({"Journaler.sessions": Journaler.sessions, "Journaler.create_or_load": Journaler.create_or_load,
                           "Journaler.set_seq_num": Journaler.set_seq_num, "Journaler.persist_msg": Journaler.persist_msg,
                           "Journaler.recover_messages": Journaler.recover_messages, "Journaler.get_all_msgs": Journaler.get_all_msgs}).start()
    shard = spec["shard"]
    tmpdir = tempfile.mkdtemp(prefix="vf_c13_", dir="/dev/shm" if os.path.isdir("/dev/shm") else None)
    try:
        for c in range(spec["n"]):
            cid = f"seq:{shard}:{c}"
            if not acc.want(cid):
                continue
            rnd = random.Random(f"{spec['seed']}:C13:{shard}:{c}")
            fn = None
            if c % 4 == 3:
                fn = os.path.join(tmpdir, f"j{c}.db")
            r = run_seq(acc, rnd, spec["ops"], cid, fn)
            if fn and os.path.exists(fn):
                os.unlink(fn)
            if r is None:
                acc.case(cid, nontrivial=False)
                continue
            trace, feats = r
            acc.case(tuple(map(str, trace)), nontrivial={"dup", "set", "multi"} <= feats)
            acc.sample({"ops": [list(map(str, t)) for t in trace[:12]]}, 2)
    finally:
        import shutil
        shutil.rmtree(tmpdir, ignore_errors=True)
    acc.reach_obj.stop()
