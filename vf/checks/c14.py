"""C14  Concurrent senders never corrupt the outbound sequence (controlled scheduler over drain() and application hooks).

A fresh real connection per run.  Every suspension point of asyncfix that holds protocol state (writer.drain(), awaited
application hooks should_replay / on_state_change / on_logon / on_message) parks on a gate that only the scheduler
releases; starting an application task, delivering the next inbound frame and letting one virtual second pass (heartbeat
task) are scheduler options too.  Schedules are explored by stateless re-execution: exhaustive DFS over the first D
decisions, greedy after, plus seeded random schedules.  The oracle reads the transport tap, the senders' results, the
journal and the stored counter.
"""
import asyncio
import random
import sys

from vf.ref import fixwire
from vf.sim.sched import DFS, Sched

META = {
    "level": "exploration",
    "rule": ("scenarios S1 two/three application senders + application send_test_req; S2 senders x reader servicing an inbound ResendRequest "
             "(open and bounded range; one journaled message declined by should_replay); S3 sender x reader processing a Logon (acceptor reply; "
             "initiator Logon + reply); S4 sender x heartbeat task firing send_test_req x reader answering a TestRequest; S5 sender x reader "
             "detecting a gap (own ResendRequest); S6 sender x reader ending the session on a wrong TestReqID; S7 two application send_test_req x heartbeat task x sender; every drain() and hook is a gate, "
             "task starts / inbound deliveries / clock ticks are scheduler options; all choice sequences over the first 7 (quick) / 11 (thorough) "
             "decisions (greedy afterwards) plus random schedules; after all tasks finish: new frames carry strictly increasing gap-free numbers "
             "in wire order, a number is reused only by a PossDup / gap-fill retransmission, no DuplicateSeqNoError anywhere, every new frame "
             "journaled under its number, stored next-out = highest + 1; distinct = (scenario, schedule); non-trivial = schedule in which two "
             "activities were parked at the same time"),
    "assumptions": ["drain waiters of one writer are released FIFO (asyncio wakes them in order); other gates in any order",
                    "a send refused with FIXConnectionError is a legal outcome for a sender (it must consume nothing)"],
}
REQUIRED_ORACLES = ["wire-order", "journal-row", "stored-counter", "no-duplicate-error", "all-tasks-finish", "gapfill-coverage"]
REQUIRED_COUNTERS = ["schedules_with_a_failed_journal_commit", "schedules_with_socket_death", "schedules_by_scenario:S2", "schedules_by_scenario:S8", "schedules_by_scenario:S9", "schedules_by_scenario:S9b"]
NSHARDS = 16
SCEN = ["S1", "S1b", "S2", "S2b", "S2c", "S3", "S3b", "S4", "S5", "S6", "S7", "S8", "S8b", "S9", "S9b", "S10", "S10b"]
DEPTH = {"quick": 7, "thorough": 11}
MAXRUNS = {"quick": 700, "thorough": 30000}
NRAND = {"quick": 25, "thorough": 1500}


def plan(tier, seed):
    return [{"shard": i, "nshards": NSHARDS, "depth": DEPTH[tier], "max_runs": MAXRUNS[tier], "nrand": NRAND[tier]} for i in range(NSHARDS)]


def scenario_def(name):
    """role, setup sends, explored tasks (lists of actions), inbound frames (builders), ticks"""
    d = {"role": "acceptor", "setup": 0, "tasks": [], "inbound": [], "ticks": 0, "hb": False, "logon": True, "death": False, "resume": False, "jfail": False}
    if name == "S1":
        d.update(tasks=[["app:a1", "app:a2"], ["app:b1"], ["test_req"]])
    elif name == "S1b":
        d.update(role="initiator", tasks=[["app:a1"], ["app:b1"], ["app:c1", "hb"]])
    elif name == "S2":
        d.update(setup=3, inbound=[("rr", 1, 0)], tasks=[["app:x1"], ["app:y1"]])
    elif name == "S2b":
        d.update(setup=4, inbound=[("rr", 2, 3)], tasks=[["app:x1", "app:x2"]])
    elif name == "S2c":
        d.update(role="initiator", setup=2, inbound=[("rr", 1, 0), ("app",)], tasks=[["app:x1"], ["test_req"]])
    elif name == "S3":
        d.update(logon=False, inbound=[("logon",)], tasks=[["app:x1"], ["app:y1"]])
    elif name == "S3b":
        d.update(role="initiator", logon=False, inbound=[("logon",)], tasks=[["logon"], ["app:x1"]])
    elif name == "S4":
        d.update(inbound=[("tr", "T1"), ("app",)], tasks=[["app:x1"]], ticks=2, hb=True)
    elif name == "S5":
        d.update(inbound=[("gap",), ("app",)], tasks=[["app:x1"], ["app:y1"]])
    elif name == "S7":
        d.update(tasks=[["test_req"], ["test_req"], ["app:x1"]], ticks=2, hb=True)
    elif name == "S8":
        # the socket dies while senders are parked in drain(): every parked and later drain() raises, later writes go nowhere
        d.update(tasks=[["app:a1", "app:a2"], ["app:b1"], ["app:c1"]], death=True)
    elif name == "S8b":
        d.update(role="initiator", setup=2, inbound=[("tr", "T1")], tasks=[["app:x1"], ["test_req", "app:y1"]], death=True)
    elif name == "S9":
        # back-pressure ends while a sender is parked in drain(): from then on drain() calls of other senders return at once (the
        # transport is no longer paused) although the parked one has not been woken yet
        d.update(tasks=[["app:a1", "app:a2"], ["app:b1"], ["test_req"]], resume=True)
    elif name == "S9b":
        d.update(inbound=[("tr", "T1"), ("app",)], tasks=[["app:x1"], ["app:y1"]], resume=True)
    elif name == "S10":
        # the journal fails the COMMIT of one outbound row (file locked, disk full) at a moment the scheduler picks: that send is refused,
        # the senders around it are numbered and journaled as if it had never been tried
        d.update(tasks=[["app:a1", "app:a2"], ["app:b1"], ["test_req"]], jfail=True)
    elif name == "S10b":
        d.update(inbound=[("tr", "T1"), ("app",)], tasks=[["app:x1"], ["app:y1", "app:y2"]], jfail=True)
    elif name == "S6":
        d.update(inbound=[("badhb",)], tasks=[["test_req", "app:x1"], ["app:y1"]])
    return d


async def run_schedule(name, clock, choices, rnd=None, max_decisions=80):
    """One execution.  Returns (trace, obs) ; trace None = infeasible prefix."""
    from asyncfix import FIXMessage, Journaler
    from asyncfix.connection import ConnectionRole, ConnectionState as CS
    from asyncfix.errors import FIXConnectionError
    from asyncfix.message import MessageDirection as D
    from vf.sim import endpoint as E
    from vf.sim.net import settle, SpinAbort
    d = scenario_def(name)
    sched = Sched()
    j = Journaler()
    ep = E.new_endpoint("server" if d["role"] == "acceptor" else "client", "ME", "PEER", j, hb=30, name="ME",
                        replay_filter=lambda m: not str(m.get(11, "")).startswith("n"))
    E.attach(ep, clock)
    peer = E.Peer("PEER", "ME")
    gated = {"on": False}

    dead = {"on": False, "eof": False, "lost": []}

    parking = {"on": True}
    jf = {"armed": False, "n": 0, "used": False}
    real_persist = j.persist_msg

    def failing_persist(msg, session, direction):
        if jf["armed"] and direction == D.OUTBOUND:
            import sqlite3
            jf["armed"] = False
            jf["n"] += 1
            real_conn = j.conn

            class CommitFails:
                def __getattr__(self, n):
                    return getattr(real_conn, n)

                def commit(self):
                    raise sqlite3.OperationalError("database is locked")
            j.conn = CommitFails()
            try:
                return real_persist(msg, session, direction)
            finally:
                j.conn = real_conn
        return real_persist(msg, session, direction)
    if d["jfail"]:
        j.persist_msg = failing_persist

    async def drain_hook():
        if gated["on"] and parking["on"]:
            await sched.wait("drain")
        if dead["on"]:
            raise ConnectionResetError("Connection lost")
    ep.vf_writer.drain_hook = drain_hook

    def hook(label):
        async def h(*a):
            if gated["on"]:
                await sched.wait("hook:" + label)
        return h
    for hname in ("should_replay", "on_state_change", "on_logon", "on_message"):
        ep.vf_hooks[hname] = hook(hname)
    in_resend = {"on": False}
    orig_resend = ep._process_resend

    async def wrapped_resend(msg):
        in_resend["on"] = True
        try:
            return await orig_resend(msg)
        finally:
            in_resend["on"] = False
    ep._process_resend = wrapped_resend
    marks = []     # (tap index, in_resend flag) for every tapped frame

    orig_add = ep.vf_tap.add

    def tap_add(data):
        if dead["on"]:
            dead["lost"].append(data)      # a transport that lost its connection discards what is written to it
            return
        marks.append(in_resend["on"])
        orig_add(data)
    ep.vf_tap.add = tap_add
    # a bare `await asyncio.sleep(0)` inside the library (none today) is a suspension point too: gate it
    driver = asyncio.current_task()
    real_sleep = asyncio.sleep

    async def gated_sleep(delay, result=None):
        if gated["on"] and delay <= 0 and asyncio.current_task() is not driver:
            await sched.wait("yield")
            return result
        return await real_sleep(delay, result)
    asyncio.sleep = gated_sleep
    E.start_reader(ep)
    # ---- setup phase (no gating)
    if d["logon"]:
        if d["role"] == "initiator":
            await ep.send_msg(FIXMessage("A", {98: 0, 108: 30}))
        ep.vf_reader.feed(peer.logon())
        await settle()
        if ep.connection_state != CS.ACTIVE:
            asyncio.sleep = real_sleep
            E.stop_tasks(ep)
            return None, {"setup": "not-active"}
        for k in range(d["setup"]):
            await ep.send_msg(FIXMessage("D", {11: ("n" if k == 1 else "s") + str(k), 55: "X"}))
    if d["hb"]:
        ep._message_last_time = clock.now - 28.5     # the TestRequest is due at the next tick (threshold 29 s), not at task start
        E.start_heartbeat(ep)
        await settle()
    tap0 = len(ep.vf_tap)
    first_new = ep._session.next_num_out
    # ---- explored phase
    gated["on"] = True
    results = {}        # task index -> list of outcomes
    started = []
    tasks = []
    inbound = list(d["inbound"])
    ticks = d["ticks"]

    async def run_task(i, actions):
        res = results.setdefault(i, [])
        for a in actions:
            try:
                if a.startswith("app:"):
                    await ep.send_msg(FIXMessage("D", {11: a[4:], 55: "X"}))
                elif a == "hb":
                    await ep.send_msg(FIXMessage("0"))
                elif a == "logon":
                    await ep.send_msg(FIXMessage("A", {98: 0, 108: 30}))
                elif a == "test_req":
                    await ep.send_test_req()
                res.append((a, "ok"))
            except FIXConnectionError as e:
                res.append((a, "refused"))
            except Exception as e:
                res.append((a, f"raised:{type(e).__name__}:{e}"[:200]))

    def build_inbound(spec):
        E_ = ep._session.next_num_in
        k = spec[0]
        if k == "rr":
            return peer.frame("2", None, [(7, spec[1]), (16, spec[2])])
        if k == "app":
            return peer.frame("8", None, [(11, "in"), (17, "e")])
        if k == "logon":
            return peer.logon()
        if k == "tr":
            return peer.frame("1", None, [(112, spec[1])])
        if k == "gap":
            peer.next_out += 2
            return peer.frame("8", None, [(11, "gap"), (17, "e")])
        if k == "badhb":
            return peer.frame("0", None, [(112, "999")])
        raise AssertionError(spec)

    trace = []
    ci = 0
    overlap = False
    ungated = {"n": 0}
    try:
        while True:
            await settle()
            opts = [("gate", g) for g in sched.enabled_gates()]
            for i, acts in enumerate(d["tasks"]):
                if i not in started:
                    opts.append(("start", i))
                    break              # tasks are started in their listed order (symmetry reduction), at any time
            if inbound and not dead["on"]:
                opts.append(("feed", None))
            if d["death"] and not dead["on"] and any(g.label == "drain" for g in sched.gates):
                opts.append(("die", None))
            if dead["on"] and not dead["eof"]:
                opts.append(("eof", None))
            if d["resume"] and parking["on"] and any(g.label == "drain" for g in sched.gates):
                opts.append(("resume-transport", None))
            if ticks > 0 and d["hb"]:
                opts.append(("tick", None))
            if d["jfail"] and not jf["used"] and len(started) < len(d["tasks"]) and opts:
                opts.append(("journal-fails", None))
            if not opts:
                break
            if len(trace) >= max_decisions:
                return trace, {"error": "too-many-decisions"}
            if ci < len(choices):
                k = choices[ci]
            elif rnd is not None:
                k = rnd.randrange(len(opts))
            else:
                k = 0
            ci += 1
            if k >= len(opts):
                return None, None
            kind, arg = opts[k]
            label = arg.label if kind == "gate" else (f"start{arg}" if kind == "start" else kind)
            trace.append((k, len(opts), label))
            if len(sched.gates) >= 2:
                overlap = True
            if label == "yield":
                ungated["n"] += 1
            if kind == "gate":
                sched.release(arg)
            elif kind == "start":
                started.append(arg)
                tasks.append(asyncio.get_running_loop().create_task(run_task(arg, d["tasks"][arg])))
            elif kind == "feed":
                ep.vf_reader.feed(build_inbound(inbound.pop(0)))
            elif kind == "journal-fails":
                jf["used"] = True
                jf["armed"] = True
            elif kind == "resume-transport":
                parking["on"] = False
            elif kind == "die":
                dead["on"] = True
            elif kind == "eof":
                dead["eof"] = True
                ep.vf_reader.set_exception(ConnectionResetError("Connection lost"))
            elif kind == "tick":
                ticks -= 1
                await asyncio.sleep(1.0)
        unfinished = [i for i, t in enumerate(tasks) if not t.done()]
        frames = ep.vf_tap.frames(tap0)
        obs = {
            "frames": frames, "all_frames": ep.vf_tap.frames(), "marks": marks[tap0:], "results": results, "unfinished": unfinished, "first_new": first_new,
            "live": ep._session.next_num_out, "stored": j.create_or_load("PEER", "ME").next_num_out,
            "rows": {}, "state": ep.connection_state.name, "swallowed": list(ep.vf_log.exceptions), "overlap": overlap,
            "reader_dead": E.task_failure(ep), "death": dead["on"], "writes_after_death": len(dead["lost"]), "journal_failures": jf["n"],
        }
        for b in j.recover_messages(ep._session, D.OUTBOUND, 0, sys.maxsize):
            obs["rows"][j.find_seq_no(b)] = b
        return trace, obs
    except SpinAbort as e:
        return trace, {"error": f"spin: {e}"}
    finally:
        asyncio.sleep = real_sleep
        for t in tasks:
            if not t.done():
                t.cancel()
        E.stop_tasks(ep)
        for g in list(sched.gates):
            if not g.fut.done():
                g.fut.cancel()


def judge(acc, name, trace, obs, cid):
    """oracle over one finished schedule"""
    sched_s = " ".join(f"{lab}" for _, _, lab in trace)
    w = {"scenario": name, "schedule": [(k, n, lab) for k, n, lab in trace], "wire": [fixwire.show(b)[:110] for b in obs.get("frames", [])][-14:],
         "results": obs.get("results"), "live": obs.get("live"), "stored": obs.get("stored"), "state": obs.get("state"),
         "swallowed": obs.get("swallowed", [])[-3:]}
    if "error" in obs:
        acc.violation("schedule-did-not-terminate", obs["error"], w, cid)
        return
    keys = []
    if obs.get("journal_failures"):
        acc.add("schedules_with_a_failed_journal_commit")
    if obs.get("death"):
        acc.add("schedules_with_socket_death")
        acc.add("writes_discarded_after_death", obs.get("writes_after_death", 0))

    def V(key, what, during_resend=False):
        keys.append((key, what, during_resend))

    acc.oracle("all-tasks-finish")
    if obs["unfinished"]:
        V("task-never-finishes", f"application tasks {obs['unfinished']} still parked with no gate left to release")
    if obs["reader_dead"] is not None:
        V("reader-task-died", repr(obs["reader_dead"]))
    acc.oracle("wire-order")
    nxt = obs["first_new"]
    seen_new = {}
    highest = nxt - 1
    for idx, fb in enumerate(obs["frames"]):
        mark = obs["marks"][idx] if idx < len(obs["marks"]) else False
        try:
            f = fixwire.parse(fb)
        except fixwire.FrameError as e:
            V("unparseable-frame", str(e))
            break
        n = int(fixwire.get(f, 34))
        retrans = fixwire.get(f, 43) == "Y" or fixwire.get(f, 35) == "4"
        if retrans:
            if n > highest and fixwire.get(f, 35) != "4":
                V("retransmission-of-unsent-number", f"PossDup frame numbered {n}, highest new number so far {highest}", mark)
            continue
        if n in seen_new:
            V("number-reused-by-new-message", f"MsgSeqNum {n} carried by two different new messages: {fixwire.show(seen_new[n])[:90]} / {fixwire.show(fb)[:90]}", True if mark else _overlaps_resend(obs, idx))
        elif n != nxt:
            V("new-numbers-not-consecutive", f"new frame carries {n}, expected {nxt} (wire order)", True if mark else _overlaps_resend(obs, idx))
        seen_new.setdefault(n, fb)
        nxt = max(nxt, n + 1)
        highest = max(highest, n)
    # a gap fill tells the peer to skip numbers for good: it must never cover an application message the replay filter accepts
    acc.oracle("gapfill-coverage")
    apps = {}
    for fb in obs.get("all_frames", obs["frames"]):
        try:
            f = fixwire.parse(fb)
        except fixwire.FrameError:
            continue
        if fixwire.get(f, 35) == "D" and fixwire.get(f, 43) != "Y" and not str(fixwire.get(f, 11, "")).startswith("n"):
            apps[int(fixwire.get(f, 34))] = fixwire.get(f, 11)
    for fb in obs["frames"]:
        try:
            f = fixwire.parse(fb)
        except fixwire.FrameError:
            continue
        if fixwire.get(f, 35) == "4" and fixwire.get(f, 123) == "Y":
            lo, hi = int(fixwire.get(f, 34)), int(fixwire.get(f, 36))
            hit = [(n, apps[n]) for n in range(lo, min(hi, lo + 50)) if n in apps]
            if hit:
                V("gapfill-covers-application-message", f"gap fill {lo}->{hi} tells the peer to skip application message(s) {hit}")
                break
    acc.oracle("no-duplicate-error")
    for i, res in obs["results"].items():
        for a, r in res:
            if r.startswith("raised:ConnectionResetError") and obs.get("death"):
                continue        # the sender is told that its socket died: the expected outcome
            if r.startswith("raised:OperationalError") and obs.get("journal_failures"):
                continue        # the sender is told that the journal refused its message: the expected outcome
            if r.startswith("raised:"):
                V("sender-saw-exception:" + r.split(":")[1], f"task {i} action {a}: {r}", "DuplicateSeqNoError" in r and _any_resend(obs))
    for e in obs["swallowed"]:
        if "DuplicateSeqNoError" in e:
            V("internal-duplicate-seqno-error", e, _any_resend(obs))
    acc.oracle("journal-row")
    for n, fb in seen_new.items():
        row = obs["rows"].get(n)
        if row != fb:
            # a later retransmission may have re-journaled number n as a PossDup copy / gap fill: accept a row that is a retransmission of it
            ok = False
            if row is not None:
                try:
                    rf = fixwire.parse(row)
                    ok = fixwire.get(rf, 43) == "Y" or fixwire.get(rf, 35) == "4"
                except fixwire.FrameError:
                    ok = False
            covered = any(k < n and _gapfill_covers(b, n) for k, b in obs["rows"].items())
            if not ok and not covered:
                V("new-frame-not-journaled", f"number {n} went out but the journal has {'no row' if row is None else 'a different row'} for it", _any_resend(obs))
    acc.oracle("stored-counter")
    if seen_new or obs["frames"]:
        want = highest + 1
        if obs.get("death"):
            # numbers journaled (write-ahead) whose frames the dead transport discarded lie above the highest number on the wire
            top = max([n for n in obs["rows"]] + [highest])
            if obs["stored"] != obs["live"] or obs["stored"] < want or obs["stored"] != top + 1:
                V("final-counter-wrong:after-socket-death", f"highest number on the wire {highest}, highest journaled {top}: stored next-out {obs['stored']}, live {obs['live']}")
        elif obs["stored"] != want or obs["live"] != want:
            V("final-counter-wrong", f"highest number sent {highest}: stored next-out {obs['stored']}, live {obs['live']}, expected {want}", _any_resend(obs))
    if not keys:
        return
    key, what, during = keys[0]
    if during and name.startswith("S2"):
        key = "send-during-resend-rewind"
    acc.violation(key, what + f" :: schedule: {sched_s[:300]}", w, cid)


def _gapfill_covers(b, n):
    try:
        f = fixwire.parse(b)
    except fixwire.FrameError:
        return False
    return fixwire.get(f, 35) == "4" and int(fixwire.get(f, 34)) <= n < int(fixwire.get(f, 36, "0"))


def _overlaps_resend(obs, idx):
    m = obs["marks"]
    return any(m[:idx + 1]) if m else False


def _any_resend(obs):
    return any(obs["marks"]) if obs["marks"] else False


def run_shard(spec, acc):
    from asyncfix.connection import AsyncFIXConnection as C
    from asyncfix.journaler import Journaler
    from vf.core.reach import Reach
    from vf.sim import vclock
    from vf.sim.net import install_open_connection
    acc.reach_obj = Reach({"send_msg": C.send_msg, "_process_resend": C._process_resend, "_process_logon": C._process_logon,
                           "send_test_req": C.send_test_req, "persist_msg": Journaler.persist_msg}).start()
    install_open_connection(None)
    shard, ns = spec["shard"], spec["nshards"]

    async def go(clock):
        oc = acc.only_case
        if oc is not None and oc.startswith("dfs:"):
            _, name, pre = oc.split(":")
            pre = [int(x) for x in pre.split(".")] if pre else []
            trace, obs = await run_schedule(name, clock, pre)
            acc.case_disjoint()
            if trace is not None:
                judge(acc, name, trace, obs, oc)
            return
        # exhaustive part: every scenario, DFS tree split between shards by the first two decisions
        for name in SCEN:
            dfs = DFS(spec["depth"], spec["max_runs"], part=shard, nparts=ns, split_depth=2)
            while (pre := dfs.pop()) is not None:
                cid = f"dfs:{name}:" + ".".join(map(str, pre))
                if oc is not None:
                    break
                trace, obs = await run_schedule(name, clock, list(pre))
                mine = dfs.push(pre, trace)
                if trace is None or not mine:
                    if trace is None and obs:
                        acc.add("setup_failed")
                    continue
                acc.case_disjoint(nontrivial=bool(obs.get("overlap")))
                acc.addmap("schedules_by_scenario", name)
                judge(acc, name, trace, obs, cid)
                if len(pre) == 3 and name in ("S2", "S4"):
                    acc.sample({"scenario": name, "schedule": [lab for _, _, lab in trace][:30]}, 3)
            acc.addmap("dfs_exhausted_within_budget", name, 1 if dfs.exhausted else 0)
        # random part
        for c in range(spec["nrand"]):
            for name in SCEN:
                cid = f"r:{name}:{shard}:{c}"
                if not acc.want(cid):
                    continue
                rnd = random.Random(f"{spec['seed']}:C14:{name}:{shard}:{c}")
                trace, obs = await run_schedule(name, clock, [], rnd)
                if trace is None:
                    continue
                acc.case((name, tuple(t[0] for t in trace)), nontrivial=bool(obs.get("overlap")))
                acc.addmap("schedules_by_scenario", name)
                judge(acc, name, trace, obs, cid)
    vclock.run(go)
    acc.reach_obj.stop()
