"""C15  Schema validation accepts exactly the messages the FIX dictionary allows (generated instances + single faults).

An independent dictionary reader (vf.ref.dictref) is used ONLY to generate instances and single faults whose validity is
unambiguous; the verdict is the library's FIXSchema.validate: True / FIXMessageError / anything else (always a violation).
"""
import copy
import random
import xml.etree.ElementTree as ET

from vf.ref import dictref, lexical

META = {
    "level": "exploration",
    "rule": ("both dictionaries (FIX44.xml 93 message types, TT-FIX44.xml 40): per message type 3 (quick) / 16 (thorough) valid instances at member "
             "densities 0 / 0.4 / 1 (required members always, repeating groups with 1-3 items in dictionary order starting with the first member, "
             "nested as deep as the dictionary goes - 4 levels -, values from the MUST-ACCEPT zone of the declared type or an enumerator, with and "
             "without a standard header) must validate; every single fault {missing required field, missing required group, unknown tag, tag not "
             "allowed in the message, value outside type/enumeration, plain field given as group, group given as plain field, two group members "
             "swapped, foreign member in an item, item without its first member, missing required member in an item} at 2 (quick) / up to 12 "
             "(thorough) positions spread over the nesting depths must raise FIXMessageError and nothing else; and the verdicts of a fixed battery "
             "must be identical for 4 (quick) / 40 (thorough) permutations of the order in which components and messages are declared; "
             "distinct = (dictionary, message type, instance, fault, position); non-trivial = faulted instance or instance with a group"),
    "assumptions": ["requiredness inside an optional component: the generator always includes such members and never removes them (both readings satisfied)",
                    "bad values are blatant ones (letters in numbers, malformed dates): near-misses are C19's subject",
                    "empty groups, trailer fields other than 10 and field order at the top level are not judged"],
}
REQUIRED_ORACLES = ["valid-accepted", "fault-rejected", "declaration-order", "history-independence"]
REQUIRED_COUNTERS = ["zero_seqnum_probes_after_an_open_ended_resendrequest", "verdicts_repeated_on_a_used_schema"]
NSHARDS = 16
DICTS = ["/tests/FIX44.xml", "/tests/TT-FIX44.xml"]
NINST = {"quick": 3, "thorough": 16}
NPOS = {"quick": 2, "thorough": 12}
NPERM = {"quick": 4, "thorough": 40}

GOOD = {"INT": "5", "SEQNUM": "7", "NUMINGROUP": "1", "LENGTH": "3", "DAYOFMONTH": "15", "FLOAT": "1.5", "QTY": "100", "PRICE": "10.25", "PRICEOFFSET": "0.5",
        "AMT": "1000.50", "PERCENTAGE": "0.05", "CHAR": "A", "BOOLEAN": "Y", "STRING": "abc", "MULTIPLEVALUESTRING": "A B", "MULTIPLESTRINGVALUE": "A B",
        "CURRENCY": "USD", "EXCHANGE": "XNYS", "COUNTRY": "US", "UTCTIMESTAMP": "20240102-12:30:45", "UTCTIMEONLY": "12:30:45", "UTCDATEONLY": "20240102",
        "LOCALMKTDATE": "20240102", "MONTHYEAR": "202403", "DATA": "abc"}
GOOD_ALT = {"INT": ["0", "-3", "42"], "FLOAT": ["2", "-0.5"], "QTY": ["1", "2.5"], "PRICE": ["99", "0.01"], "STRING": ["X", "hello world", "id-1"],
            "UTCTIMESTAMP": ["20231231-23:59:59.123", "20240229-00:00:00"], "MONTHYEAR": ["20240315", "202403w2"], "CHAR": ["1", "z"], "BOOLEAN": ["N"]}
BAD = {"INT": "x1", "SEQNUM": "abc", "LENGTH": None, "DAYOFMONTH": "40", "FLOAT": "abc", "QTY": "ten", "PRICE": "1,5x", "PRICEOFFSET": "abc", "AMT": "abc",
       "PERCENTAGE": "abc", "CHAR": "AB", "BOOLEAN": "Q", "CURRENCY": "US$D", "EXCHANGE": "XN-YS", "COUNTRY": "U$", "UTCTIMESTAMP": "2024-01-02 12:30",
       "UTCTIMEONLY": "noon", "UTCDATEONLY": "2024-01-02", "LOCALMKTDATE": "yesterday", "MONTHYEAR": "2024", "NUMINGROUP": None}


def plan(tier, seed):
    return [{"shard": i, "nshards": NSHARDS, "ninst": NINST[tier], "npos": NPOS[tier], "nperm": NPERM[tier]} for i in range(NSHARDS)]


# ------------------------------------------------------------------ instance generation (on the dictref tree)
def good_value(node, rnd):
    if node["enum"]:
        if node["type"] == "MULTIPLEVALUESTRING" and len(node["enum"]) > 1 and rnd.random() < 0.5:
            # MultipleValueString: several of the enumerated values, separated by single spaces
            return " ".join(rnd.sample(list(node["enum"]), rnd.randrange(2, min(4, len(node["enum"])) + 1)))
        return rnd.choice(node["enum"])
    t = node["type"]
    cands = [GOOD.get(t)] + GOOD_ALT.get(t, [])
    cands = [c for c in cands if c is not None and lexical.zone(t, c) == "accept"]
    if not cands:
        return GOOD.get(t)          # DATA / LENGTH: no lexical space stated; the plain value
    return rnd.choice(cands)


def bad_value(node, rnd=None):
    if node["enum"]:
        en = list(node["enum"])
        cands = ["~~", "ZZZ9", "#"]
        e1 = en[0] if rnd is None else rnd.choice(en)
        e2 = en[-1] if rnd is None else rnd.choice(en)
        cands += [e1 + "x", "x" + e1, e1 + e2, e1.swapcase(), e1 + " ", " " + e1, e1 + ",", e1 + "\t" + e2]
        if node["type"] != "MULTIPLEVALUESTRING":
            cands += [e1 + " " + e2, e1 + " " + e1]       # space-separated lists are a value of MultipleValueString only
        cands = [c for c in cands if c not in node["enum"] and c.strip()]
        if not cands:
            return None
        return cands[0] if rnd is None else rnd.choice(cands)
    b = BAD.get(node["type"])
    if b is not None and lexical.zone(node["type"], b) != "reject":
        return None
    return b


def gen_members(members, rnd, density, first_always):
    """-> list of [node, value | list-of-items]  in dictionary order"""
    out = []
    for i, n in enumerate(members):
        take = n["req"] or (first_always and i == 0) or rnd.random() < density
        if not take:
            continue
        if n["kind"] == "field":
            out.append([n, good_value(n, rnd)])
        else:
            items = [gen_members(n["members"], rnd, density, True) for _ in range(rnd.randrange(1, 4))]
            out.append([n, items])
    return out


def walk_values(inst):
    for node, v in inst:
        if isinstance(v, list):
            for it in v:
                yield from walk_values(it)
        else:
            yield node, v


def has_group(inst):
    return any(isinstance(v, list) for _, v in inst)


def to_message(dic, msgtype, inst, header):
    from asyncfix import FIXMessage
    m = FIXMessage(msgtype)
    if header:
        for t, v in (("8", "FIX.4.4"), ("9", "100"), ("35", msgtype), ("49", "SENDER"), ("56", "TARGET"), ("34", "12"), ("52", "20240102-12:30:45.000")):
            m.set(t, v, replace=True)
    fill(m, inst)
    return m


def fill(container, inst):
    from asyncfix.message import FIXContainer
    for node, v in inst:
        tag = node["tag"] if isinstance(node, dict) else node
        if isinstance(v, list):
            items = []
            for it in v:
                c = FIXContainer()
                fill(c, it)
                items.append(c)
            container.set_group(tag, items)
        elif v is MARKER:
            from asyncfix.errors import RepeatingTagError
            container.set(tag, RepeatingTagError)       # what Codec.decode stores for a tag that occurs twice outside a known group
        else:
            container.set(tag, v)


MARKER = object()


# ------------------------------------------------------------------ faults
def walk_items(inst, depth=0, path=()):
    """yield (level-list, depth, path) for the top level and every group item"""
    yield inst, depth, path
    for i, (node, v) in enumerate(inst):
        if isinstance(v, list):
            for k, it in enumerate(v):
                yield from walk_items(it, depth + 1, path + ((i, k),))


def get_level(inst, path):
    lvl = inst
    for i, k in path:
        lvl = lvl[i][1][k]
    return lvl


def fault_positions(dic, msgdef, inst, rnd=None):
    """all applicable single faults: list of (class, depth, path, index, extra)"""
    alltags = dictref.all_tags(msgdef["members"])
    foreign = None
    for t in sorted(dic.by_tag, key=int):
        if t not in alltags and t not in dic.header_tags and t not in dic.trailer_tags and not dic.by_tag[t]["enum"] \
                and dic.by_tag[t]["type"] in ("STRING", "INT", "CHAR", "PRICE", "QTY") and not dic.by_tag[t]["name"].startswith("No"):
            foreign = dic.by_tag[t]
            break
    unknown = "9999"
    while unknown in dic.by_tag:
        unknown = str(int(unknown) + 1)
    out = []
    for lvl, d, path in walk_items(inst):
        members_def = msgdef["members"] if not path else None
        for idx, (node, v) in enumerate(lvl):
            is_first_of_item = bool(path) and idx == 0
            if node["kind"] == "field":
                if node["strict"] and not is_first_of_item:
                    out.append(("missing-required-field" if not path else "missing-required-member-in-item", d, path, idx, None))
                b = bad_value(node, rnd)
                if b is not None:
                    out.append(("bad-value" if not node["enum"] else "value-outside-enumeration", d, path, idx, b))
                # a value of zero length, and the marker the decoder leaves for a tag that was given twice: outside every type
                out.append(("empty-value", d, path, idx, ""))
                out.append(("repeated-tag-marker", d, path, idx, MARKER))
                if not is_first_of_item or len(lvl) > 1:
                    out.append(("plain-field-given-as-group", d, path, idx, None))
            else:
                if node["strict"] and not is_first_of_item:
                    out.append(("missing-required-group", d, path, idx, None))
                out.append(("group-given-as-plain-field", d, path, idx, None))
                # the group is there but has no item (NoXxx=0 on the wire; the library's own NumInGroup type is positive): a required
                # group given that way is a missing group, an optional one carries a count outside its type
                out.append(("required-group-without-items" if node["strict"] else "group-without-items", d, path, idx, None))
        out.append(("unknown-tag", d, path, len(lvl), unknown))
        if foreign is not None:
            out.append(("tag-not-allowed-in-message" if not path else "foreign-member-in-item", d, path, len(lvl), foreign))
        if path:
            if len(lvl) >= 2:
                out.append(("item-without-first-member", d, path, 0, None))
                for idx in range(len(lvl) - 1):
                    if lvl[idx][0]["tag"] != lvl[idx + 1][0]["tag"]:
                        out.append(("group-members-swapped", d, path, idx, None))
                        break
    return out


def apply_fault(inst, fault):
    cls, d, path, idx, extra = fault
    new = copy.deepcopy(inst)
    lvl = get_level(new, path)
    if cls in ("missing-required-field", "missing-required-member-in-item", "missing-required-group", "item-without-first-member"):
        del lvl[idx]
    elif cls in ("bad-value", "value-outside-enumeration", "empty-value", "repeated-tag-marker"):
        lvl[idx][1] = extra
    elif cls == "plain-field-given-as-group":
        lvl[idx][1] = [[[{"tag": lvl[idx][0]["tag"], "kind": "field"}, "1"]]] if False else [[[dict(lvl[idx][0]), "1"]]]
    elif cls == "group-given-as-plain-field":
        lvl[idx][1] = "1"
    elif cls in ("required-group-without-items", "group-without-items"):
        lvl[idx][1] = []
    elif cls == "unknown-tag":
        lvl.insert(idx, [{"tag": extra, "kind": "field"}, "x"])
    elif cls in ("tag-not-allowed-in-message", "foreign-member-in-item"):
        lvl.insert(idx, [{"tag": extra["tag"], "kind": "field"}, GOOD.get(extra["type"], "abc")])
    elif cls == "group-members-swapped":
        lvl[idx], lvl[idx + 1] = lvl[idx + 1], lvl[idx]
    return new


def pick_positions(faults, npos, rnd):
    """per class: spread over depths (deepest and shallowest first)"""
    by = {}
    for f in faults:
        by.setdefault(f[0], []).append(f)
    chosen = []
    for cls in sorted(by):
        fs = by[cls]
        fs.sort(key=lambda f: (f[1], f[2], f[3]))
        depths = sorted({f[1] for f in fs})
        pick = []
        for dd in [depths[-1], depths[0]] + depths[1:-1]:
            cand = [f for f in fs if f[1] == dd and f not in pick]
            if cand:
                pick.append(rnd.choice(cand))
        rest = [f for f in fs if f not in pick]
        rnd.shuffle(rest)
        pick += rest
        chosen += pick[:npos]
    return chosen


def verdict(schema, msg):
    from asyncfix.errors import FIXMessageError
    try:
        r = schema.validate(msg)
        return "accept" if r is True else f"returned:{r!r}"
    except FIXMessageError:
        return "reject"
    except Exception as e:
        return f"raised:{type(e).__name__}"


def show_inst(inst, limit=14):
    out = []
    for node, v in inst[:limit]:
        if isinstance(v, list):
            out.append([node["tag"], [show_inst(it, 6) for it in v[:2]]])
        else:
            out.append([node["tag"], v])
    return out


def judge_instance(acc, dname, dic, schema, mt, msgdef, inst, label, cid, npos, rnd):
    from asyncfix.errors import FIXMessageError
    mt_enum = dic.by_tag.get("35", {}).get("enum") or []
    for header in (False, True):
        if header and mt_enum and mt not in mt_enum:
            acc.add("header_variant_skipped_msgtype_not_in_dictionary_enum")      # the dictionary contradicts itself: nothing to claim
            continue
        acc.oracle("valid-accepted")
        m = to_message(dic, mt, inst, header)
        v = verdict(schema, m)
        if v != "accept":
            key = "valid-instance-rejected" if v == "reject" else f"validate-{v}"
            why = ""
            try:
                schema.validate(m)
            except Exception as e:
                why = f"{type(e).__name__}: {e}"[:300]
            if v == "reject" and "value expected to be one of" in why and any(isinstance(x, str) and " " in x and n_["type"] == "MULTIPLEVALUESTRING" for n_, x in walk_values(inst)):
                key = "valid-instance-rejected:multiple-value-enumeration"
            acc.violation(key, f"{dname} {msgdef['name']} ({label}, header={header}): {why}", {"dict": dname, "msgtype": mt, "instance": show_inst(inst)}, cid)
            return
    if rnd.random() < 0.15:
        header_faults(acc, dname, dic, schema, mt, inst, cid, rnd)
        header_structure_faults(acc, dname, dic, schema, mt, inst, cid, rnd)
    faults = fault_positions(dic, msgdef, inst, rnd)
    for f in pick_positions(faults, npos, rnd):
        acc.oracle("fault-rejected")
        acc.addmap("faults_by_class", f[0])
        acc.addmap("faults_by_depth", str(f[1]))
        bad = apply_fault(inst, f)
        try:
            m = to_message(dic, mt, bad, header=(rnd.random() < 0.3 and (not mt_enum or mt in mt_enum)))
        except Exception as e:
            acc.add("fault_not_constructible")
            continue
        v = verdict(schema, m)
        acc.case_disjoint(nontrivial=True)
        if v != "reject":
            where = "top-level" if f[1] == 0 else "nested"
            key = (f"{f[0]}-accepted:{where}" if v == "accept" else f"{f[0]}:{v}")
            acc.violation(key, f"{dname} {msgdef['name']}: single fault {f[0]} at depth {f[1]} (path {f[2]}, index {f[3]}) -> {v}",
                          {"dict": dname, "msgtype": mt, "fault": [f[0], f[1], list(f[2]), f[3], str(f[4])[:80]], "instance": show_inst(bad)}, cid)


HEADER_FAULTS = [("43", "maybe"), ("43", ""), ("122", "yesterday"), ("369", "-3"), ("97", "Q"), ("34", "abc"), ("52", "now"), ("50", ""), ("347", "")]


def header_faults(acc, dname, dic, schema, mt, inst, cid, rnd):
    """one bad value in a field of the standard header (optional ones included): rejected like a bad value anywhere else"""
    if not (mt in (dic.by_tag.get("35", {}).get("enum") or [mt])):
        return
    for tag, val in HEADER_FAULTS:
        if tag not in dic.header_tags or tag not in dic.by_tag:
            continue
        node = dic.by_tag[tag]
        if val and ((node["enum"] and val in node["enum"]) or (not node["enum"] and lexical.zone(node["type"], val) != "reject")):
            continue
        try:
            m = to_message(dic, mt, inst, header=True)
            m.set(tag, val, replace=True)
        except Exception:
            continue
        acc.oracle("fault-rejected")
        acc.addmap("faults_by_class", "bad-header-value")
        v = verdict(schema, m)
        acc.case_disjoint(nontrivial=True)
        if v != "reject":
            acc.violation(f"bad-header-value-accepted" if v == "accept" else f"bad-header-value:{v}",
                          f"{dname} {mt}: header field {node['name']}({tag})={val!r} -> {v}", {"dict": dname, "msgtype": mt, "tag": tag, "value": val}, cid)
            return


def header_structure_faults(acc, dname, dic, schema, mt, inst, cid, rnd):
    """header members are validated wherever they appear: (a) a message that carries header fields but no BeginString (what the
    application hands to send_msg / what FIXTester builds), (b) the header's repeating group NoHops like any other group"""
    from asyncfix.message import FIXContainer
    if not (mt in (dic.by_tag.get("35", {}).get("enum") or [mt])):
        return
    # (a)
    for tag, val in HEADER_FAULTS:
        if tag not in dic.header_tags or tag not in dic.by_tag or tag in ("8", "9", "35"):
            continue
        node = dic.by_tag[tag]
        if val and ((node["enum"] and val in node["enum"]) or (not node["enum"] and lexical.zone(node["type"], val) != "reject")):
            continue
        try:
            good = to_message(dic, mt, inst, header=False)
            good.set(tag, good_value(node, rnd), replace=True)
            m = to_message(dic, mt, inst, header=False)
            m.set(tag, val, replace=True)
        except Exception:
            continue
        if verdict(schema, good) != "accept":
            acc.add("header_field_without_beginstring_baseline_not_accepted")
            continue
        acc.oracle("fault-rejected")
        acc.addmap("faults_by_class", "bad-header-value-without-beginstring")
        acc.case_disjoint(nontrivial=True)
        v = verdict(schema, m)
        if v != "reject":
            acc.violation("bad-header-value-accepted:message-without-beginstring" if v == "accept" else f"bad-header-value:{v}",
                          f"{dname} {mt}: header field {node['name']}({tag})={val!r} in a message without tag 8 -> {v}", {"dict": dname, "msgtype": mt, "tag": tag, "value": val}, cid)
            return
    # (b)
    if "627" not in dic.header_tags or not all(t in dic.by_tag for t in ("628", "629", "630")):
        return

    def with_hops(items):
        m = to_message(dic, mt, inst, header=True)
        if items == "plain":
            m.set("627", "1", replace=True)
            return m
        cs = []
        for it in items:
            c = FIXContainer()
            for t, v_ in it:
                c.set(t, v_)
            cs.append(c)
        m.set_group("627", cs)
        return m
    ok_item = [("628", "HOP1"), ("629", "20240102-12:30:45"), ("630", "7")]
    if verdict(schema, with_hops([ok_item, ok_item[:1]])) != "accept":
        acc.violation("valid-instance-rejected:header-group", f"{dname} {mt}: a header with a well-formed NoHops group is rejected", {"dict": dname, "msgtype": mt}, cid)
        return
    for label, items in (("group-given-as-plain-field", "plain"), ("foreign-member-in-item", [ok_item + [("1", "acct")]]), ("group-members-swapped", [[ok_item[1], ok_item[0]]]),
                         ("item-without-first-member", [ok_item[1:]]), ("bad-value", [[("628", "HOP1"), ("630", "seven")]]), ("group-without-items", [])):
        acc.oracle("fault-rejected")
        acc.addmap("faults_by_class", "header-group:" + label)
        acc.case_disjoint(nontrivial=True)
        try:
            m = with_hops(items)
        except Exception:
            acc.add("fault_not_constructible")
            continue
        v = verdict(schema, m)
        if v != "reject":
            acc.violation(f"{label}-accepted:header-group" if v == "accept" else f"{label}:{v}", f"{dname} {mt}: NoHops with {label} -> {v}", {"dict": dname, "msgtype": mt, "fault": label}, cid)
            return


def permuted_tree(path, rnd):
    tree = ET.parse(path)
    root = tree.getroot()
    for sec in ("components", "messages"):
        el = root.find(sec)
        kids = list(el)
        rnd.shuffle(kids)
        for k in list(el):
            el.remove(k)
        for k in kids:
            el.append(k)
    return tree


def run_shard(spec, acc):
    from asyncfix.protocol import FIXSchema
    from asyncfix.protocol.schema import SchemaField, SchemaGroup
    from vf.core import repoimport
    from vf.core.reach import Reach
    acc.reach_obj = Reach({"FIXSchema.validate": FIXSchema.validate, "_validate_header": FIXSchema._validate_header, "validate_group": SchemaGroup.validate_group,
                           "validate_value": SchemaField.validate_value, "_parse_msg_set": FIXSchema._parse_msg_set, "_parse": FIXSchema._parse}).start()
    shard, ns = spec["shard"], spec["nshards"]
    k = 0
    for dn in DICTS:
        path = repoimport.REPO + dn
        dic = dictref.Dict(path)
        schema = FIXSchema(path)
        battery = []
        for mt in sorted(dic.messages):
            msgdef = dic.messages[mt]
            for i in range(spec["ninst"]):
                k += 1
                if k % ns != shard:
                    continue
                cid = f"i:{dn}:{mt}:{i}"
                if not acc.want(cid):
                    continue
                rnd = random.Random(f"{spec['seed']}:C15:{dn}:{mt}:{i}")
                density = [0.0, 0.4, 1.0][i] if i < 3 else rnd.random()
                inst = gen_members(msgdef["members"], rnd, density, False)
                acc.case((dn, mt, i), nontrivial=has_group(inst))
                judge_instance(acc, dn, dic, schema, mt, msgdef, inst, f"density {density:.2f}", cid, spec["npos"], rnd)
                if i == 1 and len(battery) < 400:
                    battery.append((mt, inst))
                    faults = fault_positions(dic, msgdef, inst, rnd)
                    for f in pick_positions(faults, 1, rnd)[:6]:
                        battery.append((mt, apply_fault(inst, f)))
                if k % 173 == 0:
                    acc.sample({"dict": dn, "msgtype": mt, "instance": show_inst(inst, 8)}, 3)
        # declaration-order independence
        base = []
        for mt, inst in battery:
            try:
                base.append(verdict(schema, to_message(dic, mt, inst, False)))
            except Exception:
                base.append("unbuildable")
        # the verdict on a message is a function of the message and the dictionary, not of what this schema object validated before:
        # (a) the whole battery again, in reverse order, on the same object; (b) the one value-level exception the validator has
        # (EndSeqNo=0 in an open-ended ResendRequest) must stay EndSeqNo's: after it was validated, zero in other SeqNum fields is refused
        from asyncfix import FIXMessage
        acc.oracle("history-independence")
        for (mt, inst), b in reversed(list(zip(battery, base))):
            if b == "unbuildable":
                continue
            v = verdict(schema, to_message(dic, mt, inst, False))
            acc.add("verdicts_repeated_on_a_used_schema")
            if v != b:
                acc.violation("verdict-depends-on-validation-history", f"{dn} {dic.messages[mt]['name']}: {b} the first time, {v} when validated again later on the same schema object",
                              {"dict": dn, "msgtype": mt, "instance": show_inst(inst)}, f"hist:{dn}:{shard}")
                break
        if verdict(schema, FIXMessage("2", {7: 1, 16: 0})) == "accept":
            for label, mt_, fields, tag in (("BeginSeqNo", "2", {7: 3, 16: 5}, 7), ("NewSeqNo", "4", {36: 7}, 36), ("NewSeqNo in a gap fill", "4", {123: "Y", 36: 7}, 36),
                                            ("RefSeqNum", "3", {45: 4}, 45)):
                if verdict(schema, FIXMessage(mt_, dict(fields))) != "accept":
                    acc.add("zero_seqnum_probe_not_applicable")
                    continue
                acc.oracle("history-independence")
                acc.add("zero_seqnum_probes_after_an_open_ended_resendrequest")
                v = verdict(schema, FIXMessage(mt_, {**fields, tag: 0}))
                if v != "reject":
                    acc.violation("verdict-depends-on-validation-history:zero-seqnum-after-endseqno-zero", f"{dn}: {label}=0 -> {v} after ResendRequest(EndSeqNo=0) was validated on the same schema object",
                                  {"dict": dn, "msgtype": mt_, "tag": tag}, f"hist0:{dn}:{label}")
        else:
            acc.add("open_ended_resendrequest_not_accepted_by_this_dictionary")
        for p in range(spec["nperm"]):
            if p % ns != shard and spec["nperm"] >= ns:
                continue
            cid = f"perm:{dn}:{p}"
            if not acc.want(cid):
                continue
            rnd = random.Random(f"{spec['seed']}:C15:perm:{dn}:{shard}:{p}")
            tree = permuted_tree(path, rnd)
            acc.oracle("declaration-order")
            try:
                s2 = FIXSchema(tree)
            except Exception as e:
                acc.violation(f"permuted-dictionary-not-loadable:{type(e).__name__}", f"{dn}: FIXSchema() on a dictionary with permuted declarations raised {e!r}"[:400], {"dict": dn, "perm": p}, cid)
                continue
            acc.case_disjoint(nontrivial=True)
            for (mt, inst), b in zip(battery, base):
                if b == "unbuildable":
                    continue
                v = verdict(s2, to_message(dic, mt, inst, False))
                if v != b:
                    acc.violation("verdict-depends-on-declaration-order", f"{dn} {dic.messages[mt]['name']}: {b} with the file's order, {v} after permuting components/messages",
                                  {"dict": dn, "msgtype": mt, "instance": show_inst(inst)}, cid)
                    break
    acc.reach_obj.stop()
