"""C16  The order status transition function is total, closed and lifecycle-safe (exhaustive enumeration + laws)."""

META = {
    "level": "exploration",
    "exhaustive": {"quick": True, "thorough": True},
    "rule": ("the whole domain enumerated: 15 statuses x {8,9,F,G + 3 unsupported kinds} x {17 ExecTypes, 0, None} x 15 reported statuses "
             "x {raise, no-raise} x {arguments as enum members, as raw strings}; every call judged by laws L1-L6 taken from the statement "
             "(closure/totality, finished absorbing, no way back to created / pending-new, created accepts only pending-new/rejected, "
             "request gating, FIX 4.4 matrix cells are not errors) plus can_cancel / can_replace / is_finished for every status; "
             "distinct = the call tuple (disjoint by construction); non-trivial = every cell"),
    "assumptions": ["L6 reference cells are the FIX 4.4 order state change matrix transitions for the report kinds the library models "
                    "(vf/ref/ordref.py); cells the pinned tests define otherwise (PENDING_REPLACE+REPLACED->SUSPENDED, "
                    "PARTIALLY_FILLED->DONE_FOR_DAY) are left unspecified"],
}
REQUIRED_ORACLES = ["L1", "L2", "L3", "L4", "L5", "L6", "helpers"]


def plan(tier, seed):
    return [{"shard": i, "nshards": 8} for i in range(8)]


def run_shard(spec, acc):
    from asyncfix import FMsg
    from asyncfix.errors import FIXError
    from asyncfix.protocol import FIXNewOrderSingle
    from asyncfix.protocol.common import FExecType, FOrdStatus as S, FOrdSide
    from vf.core.reach import Reach
    from vf.ref import ordref
    acc.reach_obj = Reach({"change_status": FIXNewOrderSingle.change_status}).start()
    FIN = [S.FILLED, S.CANCELED, S.REJECTED, S.EXPIRED]
    ACKED = [S.NEW, S.PARTIALLY_FILLED, S.SUSPENDED, S.DONE_FOR_DAY, S.STOPPED, S.CALCULATED]
    statuses = list(S)
    kinds = [FMsg.EXECUTIONREPORT, FMsg.ORDERCANCELREJECT, FMsg.ORDERCANCELREQUEST, FMsg.ORDERCANCELREPLACEREQUEST,
             FMsg.NEWORDERSINGLE, FMsg.HEARTBEAT, "XX"]
    supported = {"8", "9", "F", "G"}
    execs = list(FExecType) + [0, None]
    shard, nsh = spec["shard"], spec["nshards"]
    idx = 0

    def kv(k):
        return getattr(k, "value", k)

    def call(cur, kind, ex, rep, raise_on_err):
        try:
            r = FIXNewOrderSingle.change_status(cur, kind, ex, rep, raise_on_err=raise_on_err)
            return ("ret", r)
        except FIXError as e:
            if type(e) is not FIXError:
                return ("other", e)
            return ("fixerror", None)
        except Exception as e:
            return ("other", e)

    for form in ("enum", "raw"):
        for cur in statuses:
            for kind in kinds:
                for ex in execs:
                    for rep in statuses:
                        idx += 1
                        if idx % nsh != shard:
                            continue
                        k = kv(kind)
                        a_cur = cur if form == "enum" else cur.value
                        a_rep = rep if form == "enum" else rep.value
                        a_ex = ex if form == "enum" or ex in (0, None) else ex.value
                        a_kind = kind if form == "enum" else k
                        cell = {"current": cur.name, "kind": k, "exec_type": getattr(ex, "name", ex), "reported": rep.name, "form": form}
                        cid = f"{form}:{cur.name}:{k}:{getattr(ex, 'name', ex)}:{rep.name}"
                        if not acc.want(cid):
                            continue
                        acc.case_disjoint()
                        rt = call(a_cur, a_kind, a_ex, a_rep, True)
                        rf = call(a_cur, a_kind, a_ex, a_rep, False)
                        # the function is a pure table lookup: asking again (after the lenient call) must give the same answer
                        rt2 = call(a_cur, a_kind, a_ex, a_rep, True)
                        rf2 = call(a_cur, a_kind, a_ex, a_rep, False)
                        if (rt2[0], str(rt2[1]) if rt2[0] == "ret" else None) != (rt[0], str(rt[1]) if rt[0] == "ret" else None) or \
                                (rf2[0], str(rf2[1]) if rf2[0] == "ret" else None) != (rf[0], str(rf[1]) if rf[0] == "ret" else None):
                            acc.violation("L1:answer-depends-on-earlier-calls", f"{cell}: strict {rt} then lenient {rf}, asked again: strict {rt2}, lenient {rf2}", cell, cid)
                        # ---- L1 closure / totality
                        acc.oracle("L1")
                        for tag, r in (("raise", rt), ("noraise", rf)):
                            if r[0] == "other":
                                acc.violation(f"L1:unexpected-exception:{type(r[1]).__name__}", f"{cell} {tag}: {r[1]!r}", cell, cid)
                            elif r[0] == "ret" and r[1] is not None and not (r[1] is a_rep or (r[1] == a_rep and str(r[1]) == str(a_rep))):
                                acc.violation("L1:returns-something-else", f"{cell} {tag}: returned {r[1]!r}", cell, cid)
                        if rf[0] == "fixerror":
                            acc.violation("L1:raises-when-asked-not-to" + ("" if k in supported else ":unsupported-kind"), f"{cell}", cell, cid)
                        if k in supported:
                            exp_f = None if rt[0] != "ret" else rt[1]
                            if rf[0] == "ret" and rt[0] != "other" and not (rf[1] is exp_f or (rf[1] == exp_f and exp_f is not None)):
                                acc.violation("L1:error-modes-disagree", f"{cell}: raise-mode {rt} vs no-raise {rf}", cell, cid)
                        else:
                            for r in (rt, rf):
                                if r[0] == "ret" and r[1] is not None:
                                    acc.violation("L1:unsupported-kind-yields-status", f"{cell}: {r[1]!r}", cell, cid)
                        got_status = (rt[0] == "ret" and rt[1] is not None) or (rf[0] == "ret" and rf[1] is not None)
                        is_error = rt[0] == "fixerror"
                        # ---- L2 finished statuses are absorbing
                        if cur in FIN:
                            acc.oracle("L2")
                            if got_status:
                                key = "L2:cancel-reject-revives-finished-order" if k == "9" else f"L2:finished-order-changes-status:kind-{k}"
                                acc.violation(key, f"{cell}: a finished order's status becomes {rep.name}", cell, cid)
                        # ---- L3 no way back
                        if k in ("8", "9"):
                            acc.oracle("L3")
                            if got_status and rep == S.CREATED:
                                acc.violation(f"L3:report-returns-created:kind-{k}", f"{cell}", cell, cid)
                            if got_status and rep == S.PENDING_NEW and cur in ACKED:
                                key = "L3:cancel-reject-returns-pending-new" if k == "9" else "L3:report-returns-pending-new-from-acknowledged"
                                acc.violation(key, f"{cell}", cell, cid)
                        # ---- L4 just created
                        if cur == S.CREATED and k in ("8", "9"):
                            acc.oracle("L4")
                            if got_status != (rep in (S.PENDING_NEW, S.REJECTED)):
                                acc.violation("L4:created-order-acceptance", f"{cell}: accepted={got_status}", cell, cid)
                        # ---- L5 request gating
                        if k in ("F", "G"):
                            acc.oracle("L5")
                            if cur in (S.NEW, S.PARTIALLY_FILLED, S.SUSPENDED):
                                if not got_status:
                                    acc.violation("L5:request-not-permitted-on-live-order", f"{cell}: {rt}", cell, cid)
                            elif cur in (S.PENDING_CANCEL, S.PENDING_REPLACE):
                                if got_status or is_error:
                                    acc.violation("L5:request-while-pending-not-ignored", f"{cell}: {rt}", cell, cid)
                            else:
                                if not is_error or got_status:
                                    acc.violation("L5:request-not-refused", f"{cell}: {rt}", cell, cid)
                        # ---- L6 FIX matrix cells are not errors
                        if k == "8" and ordref.matrix_allows(cur.value, kv(ex) if ex not in (0, None) else None, rep.value):
                            acc.oracle("L6")
                            if is_error or rt[0] == "other":
                                acc.violation("L6:fix-matrix-transition-is-an-error", f"{cell}", cell, cid)
                        if idx % 20000 == 0:
                            acc.sample({"cell": cell, "raise_mode": str(rt), "noraise_mode": str(rf)}, 3)
    # ---- statuses the library does not know (what a counterparty may put into tag 39, what an order restored from elsewhere may carry):
    # the function stays total and closed - the reported value itself, 'no change', or the order error when asked to raise
    foreign = ["5", "z", "a", "Z ", " 0", "00", "", None, 7]
    vals = [x.value for x in statuses] + foreign
    for cur in vals:
        for rep in vals:
            if cur not in foreign and rep not in foreign:
                continue
            for kind in kinds:
                for ex in execs:
                    idx += 1
                    if idx % nsh != shard:
                        continue
                    k = kv(kind)
                    a_ex = ex if ex in (0, None) else ex.value
                    cell = {"current": repr(cur), "kind": k, "exec_type": getattr(ex, "name", ex), "reported": repr(rep), "form": "foreign"}
                    cid = f"foreign:{cur!r}:{k}:{getattr(ex, 'name', ex)}:{rep!r}"
                    if not acc.want(cid):
                        continue
                    acc.case_disjoint()
                    acc.oracle("L1")
                    acc.add("cells_with_a_status_outside_the_enumeration")
                    for tag, r in (("raise", call(cur, k, a_ex, rep, True)), ("noraise", call(cur, k, a_ex, rep, False))):
                        if r[0] == "other":
                            acc.violation(f"L1:unexpected-exception:{type(r[1]).__name__}:foreign-status", f"{cell} {tag}: {r[1]!r}", cell, cid)
                        elif r[0] == "fixerror" and tag == "noraise":
                            acc.violation("L1:raises-when-asked-not-to" + ("" if k in supported else ":unsupported-kind"), f"{cell}", cell, cid)
                        elif r[0] == "ret" and r[1] is not None and not (r[1] is rep or (type(r[1]) is type(rep) and r[1] == rep)):
                            acc.violation("L1:returns-something-else:foreign-status", f"{cell} {tag}: returned {r[1]!r}", cell, cid)
                        elif r[0] == "ret" and r[1] is not None and k not in supported:
                            acc.violation("L1:unsupported-kind-yields-status", f"{cell}: {r[1]!r}", cell, cid)
    # helpers
    if shard == 0:
        for st in statuses:
            o = FIXNewOrderSingle("root", "T", FOrdSide.BUY, 10.0, 5.0)
            o.status = st
            acc.oracle("helpers")
            acc.case_disjoint()
            try:
                fin, cc, cr = o.is_finished(), o.can_cancel(), o.can_replace()
            except Exception as e:
                acc.violation("helpers:raised", f"{st.name}: {e!r}", {"status": st.name}, f"helpers:{st.name}")
                continue
            if fin != (st in FIN):
                acc.violation("helpers:is_finished", f"{st.name}: {fin}", {"status": st.name}, f"helpers:{st.name}")
            live = st in (S.NEW, S.PARTIALLY_FILLED, S.SUSPENDED)
            if cc != live or cr != live:
                acc.violation("helpers:can_cancel/can_replace", f"{st.name}: can_cancel={cc} can_replace={cr}", {"status": st.name}, f"helpers:{st.name}")
            if fin and (cc or cr):
                acc.violation("helpers:finished-but-permits-requests", f"{st.name}", {"status": st.name}, f"helpers:{st.name}")
    acc.reach_obj.stop()
