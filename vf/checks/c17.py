"""C17  An order object converges to the exchange's view of the order (exchange simulator + interleaving exploration).

The real FIXNewOrderSingle is driven by every interleaving of {the requests it permits, the exchange working requests,
unsolicited exchange events, the client processing reports} over two FIFO queues (requests ->, reports <-).  The exchange
(vf.ref.ordref.Exchange) follows the FIX 4.4 order state change matrices for the report kinds the property lists and
fabricates its own reports.  Monitors run after every step and at quiescence.
"""
import copy
import math
import random

from vf.ref import ordref

META = {
    "level": "exploration",
    "rule": ("ALL interleavings to depth 9 (quick) / 13 (thorough), pruned by visited (order, exchange, queues) state, over client actions {new, cancel, "
             "replace price, replace qty up, replace qty down, replace without any change (must be refused and leave the order untouched), process next report} and exchange actions {pending-new, ack, reject, work next request "
             "(pending / accept / reject), resolve a pending request, partial fill, full fill, expire, suspend, resume, unsolicited cancel}; plus "
             "random walks of 40 steps with roots over printable ASCII (incl. '--', digits) and quantities 1..10^6; after every step: status is an "
             "FOrdStatus member, can_cancel/can_replace true => no request outstanding, building the request succeeds, its ClOrdID was never used "
             "for this root, its OrigClOrdID is the id the order is live under at the exchange; at quiescence: status, cum_qty, leaves_qty, price, "
             "qty equal the exchange's, finished at the exchange => is_finished() and both builders refuse; distinct = visited state; non-trivial = all"),
    "assumptions": ["the exchange model stays inside what the FIX matrices and the pinned scenario tests agree on (DESIGN §4 C17)",
                    "DONE_FOR_DAY / STOPPED / CALCULATED reports and expiry / unsolicited cancel while a request is pending are not generated"],
}
REQUIRED_ORACLES = ["status-is-enum-member", "request-buildable", "clordid-fresh", "origclordid-is-live-id", "one-request-outstanding", "quiescent-agreement",
                    "finished-refuses"]
REQUIRED_COUNTERS = ["exchange_actions:bust", "exchange_actions:bust:after-cancel", "exchange_actions:pending:accept", "exchange_actions:fill:partial"]
NSHARDS = 16
DEPTH = {"quick": 9, "thorough": 13}
NRAND = {"quick": 200, "thorough": 20000}
ROOTS = ["ord", "a--b", "x--1y", "7", "root 1", "A" * 30, "o--", "--o", "é", "1--2--x"]


def plan(tier, seed):
    return [{"shard": i, "nshards": NSHARDS, "depth": DEPTH[tier], "nrand": NRAND[tier]} for i in range(NSHARDS)]


class World:
    def __init__(self, root="ord", qty=10, price=100.0):
        from asyncfix.protocol import FIXNewOrderSingle
        from asyncfix.protocol.common import FOrdSide
        self.o = FIXNewOrderSingle(root, "TICK", FOrdSide.BUY, price, qty)
        self.x = ordref.Exchange()
        self.reports = []            # FIFO exchange -> client
        self.used_ids = set()
        self.outstanding = []        # ClOrdIDs of requests sent whose final answer the client has not processed yet
        self.trace = []
        self.root = root

    def key(self):
        o = self.o
        return (str(o.status), o.clord_id, o.orig_clord_id, o.cum_qty, o.leaves_qty, o.price, o.qty, getattr(o, "_clord_id_cnt", None), self.x.key(),
                tuple(tuple(sorted((k, str(v)) for k, v in r.items())) for r in self.reports), tuple(self.outstanding))

    def clone(self):
        w = copy.copy(self)
        w.o = copy.deepcopy(self.o)
        w.x = copy.deepcopy(self.x)
        w.reports = [dict(r) for r in self.reports]
        w.used_ids = set(self.used_ids)
        w.outstanding = list(self.outstanding)
        w.trace = list(self.trace)
        return w

    # -- enabled actions
    def actions(self):
        from asyncfix.protocol.common import FOrdStatus
        a = []
        o = self.o
        if o.status == FOrdStatus.CREATED:
            a.append("c:new")
        else:
            try:
                if o.can_cancel():
                    a.append("c:cancel")
                if o.can_replace():
                    a += ["c:replace-px", "c:replace-qty-up", "c:replace-qty-down", "c:replace-noop"]
            except Exception:
                pass
        if self.reports:
            a.append("c:process-report")
        a += ["x:" + k for k in self.x.actions()]
        return a

    def quiescent(self):
        return not self.reports and not self.x.requests and self.x.pending is None and self.x.status not in (None, "A")


def msg_to_req(m):
    """FIXMessage of the library -> request dict for the exchange"""
    mt = m.msg_type
    mt = getattr(mt, "value", mt)
    r = {35: str(mt), 11: str(m.get(11))}
    for t in (41, 38, 44, 54, 55):
        v = m.get(t, None)
        if v is not None:
            r[t] = str(v) if t in (41, 54, 55) else float(str(v))
    return r


def report_to_msg(r):
    from asyncfix import FIXMessage
    m = FIXMessage(r[35])
    for t, v in r.items():
        if t != 35:
            m.set(t, v)
    return m


class Stop(Exception):
    pass


def apply(acc, w, action, cid):
    """apply one action to world w (mutates); run the step monitors; raises Stop after a violation"""
    from asyncfix.errors import FIXError
    from asyncfix.protocol.common import FOrdStatus
    o, x = w.o, w.x

    def V(key, what):
        acc.violation(key, what, {"trace": w.trace[-25:], "order": safe_repr(o), "clord": [o.clord_id, o.orig_clord_id],
                                  "exchange": {"status": x.status, "live_id": x.live_id, "qty": x.qty, "price": x.price, "cum": x.cum, "leaves": x.leaves,
                                               "pending": x.pending}}, cid)
        raise Stop()
    w.trace.append(action)
    if action == "c:replace-noop":
        # a replace that changes nothing is refused; a refused request must leave the order exactly as it was
        snap = (o.clord_id, o.orig_clord_id, str(o.status), o.price, o.qty)
        acc.oracle("request-buildable")
        try:
            [lambda: o.replace_req(), lambda: o.replace_req(price=o.price, qty=o.qty), lambda: o.replace_req(qty=0)][len(w.trace) % 3]()
            V("no-change-replace-not-refused", "replace_req() without a price or quantity change returned a message")
        except FIXError:
            pass
        except Stop:
            raise
        except Exception as e:
            V(f"no-change-replace-raised:{type(e).__name__}", repr(e))
        if (o.clord_id, o.orig_clord_id, str(o.status), o.price, o.qty) != snap:
            V("refused-request-changes-order", f"a refused replace left the order at {(o.clord_id, o.orig_clord_id, str(o.status))}, before {snap[:3]}")
    elif action.startswith("c:") and action != "c:process-report":
        kind = action[2:]
        try:
            if kind == "new":
                m = o.new_req()
            elif kind == "cancel":
                m = o.cancel_req()
            elif kind == "replace-px":
                # mostly an ordinary move; every third price change goes to (or away from) a limit price of exactly zero, which
                # FIX allows (spreads, combos) although the property's quantifier only speaks of positive prices: a boundary
                newp = o.price + 1.5 if (len(w.trace) % 3 or o.price == 0) else 0.0
                m = o.replace_req(price=newp)
                acc.addmap("replace_price_targets", "zero" if newp == 0 else "positive")
            elif kind == "replace-qty-up":
                m = o.replace_req(qty=o.qty + 5)
            else:
                m = o.replace_req(qty=max(1.0, math.floor(o.qty / 2)) if o.qty > 1 else o.qty + 1)
        except Exception as e:
            acc.oracle("request-buildable")
            V(f"permitted-request-not-buildable:{kind.split('-')[0]}:{type(e).__name__}",
              f"the order said it can be {'cancelled' if kind == 'cancel' else 'replaced'} but building the request raised {e!r}")
        acc.oracle("request-buildable")
        req = msg_to_req(m)
        acc.oracle("clordid-fresh")
        if req[11] in w.used_ids:
            V("clordid-reused", f"request {kind} uses ClOrdID {req[11]!r} again (used: {sorted(w.used_ids)})")
        if w.o.clord_root(req[11]) != w.o.clord_root(w.root + "--1") and kind != "new":
            pass
        w.used_ids.add(req[11])
        if kind != "new":
            acc.oracle("origclordid-is-live-id")
            if req.get(41) != x.live_id:
                V("origclordid-not-the-live-id", f"request {kind} refers to OrigClOrdID {req.get(41)!r}, the order is live at the exchange as {x.live_id!r}")
        acc.oracle("one-request-outstanding")
        if w.outstanding:
            V("second-request-while-one-outstanding", f"request {kind} built while {w.outstanding} is still unanswered")
        w.outstanding.append(req[11])
        x.submit(req)
    elif action == "c:process-report":
        r = w.reports.pop(0)
        m = report_to_msg(r)
        try:
            if r[35] == "8":
                o.process_execution_report(m)
            else:
                o.process_cancel_rej_report(m)
        except Exception as e:
            V(f"report-processing-raised:{type(e).__name__}", f"processing {r} raised {e!r}")
        # final answers close the outstanding request
        if r[35] == "9" or r.get(150) in ("4", "5", "8", "0") or (r.get(150) == "A" and False):
            rid = r.get(11)
            if rid in w.outstanding:
                w.outstanding.remove(rid)
        if r[35] == "8" and r.get(39) in ordref.FINISHED:
            w.outstanding.clear()        # the order is over: nothing can be outstanding any more
    else:
        w.reports += x.step(action[2:])
        acc.addmap("exchange_actions", action[2:])
    # ---- step monitors
    acc.oracle("status-is-enum-member")
    if not isinstance(o.status, FOrdStatus):
        V("status-not-an-enum-member", f"order.status is {o.status!r} ({type(o.status).__name__}) after {action}")
    try:
        cc, cr = o.can_cancel(), o.can_replace()
    except Exception as e:
        V(f"can_cancel/can_replace-raised:{type(e).__name__}", repr(e))
    if (cc or cr) and w.outstanding:
        acc.oracle("one-request-outstanding")
        V("request-permitted-while-one-outstanding", f"can_cancel={cc} can_replace={cr} while request {w.outstanding} is unanswered")
    if x.anomalies:
        V("exchange-saw:" + x.anomalies[0][0], str(x.anomalies[0]))
    # a permitted request must be buildable even when the schedule does not send it now
    for ok, kind in ((cc, "cancel"), (cr, "replace")):
        if ok:
            acc.oracle("request-buildable")
            o2 = copy.deepcopy(o)
            try:
                m = o2.cancel_req() if kind == "cancel" else o2.replace_req(price=o2.price + 1.5)
            except Exception as e:
                V(f"permitted-request-not-buildable:{kind}:{type(e).__name__}", f"can_{kind}() is true but building the request raised {e!r}")
            req = msg_to_req(m)
            acc.oracle("clordid-fresh")
            if req[11] in w.used_ids:
                V("clordid-reused", f"a {kind} request would use ClOrdID {req[11]!r} again")
            if not w.reports and not x.requests:
                acc.oracle("origclordid-is-live-id")
                if req.get(41) != x.live_id:
                    V("origclordid-not-the-live-id", f"a {kind} request would refer to {req.get(41)!r}, live id at the exchange is {x.live_id!r}")
    # ---- quiescence
    if w.quiescent():
        acc.oracle("quiescent-agreement")
        want = {"status": x.status, "cum_qty": x.cum, "leaves_qty": x.leaves, "price": x.price, "qty": x.qty}
        got = {"status": str(o.status), "cum_qty": float(o.cum_qty), "leaves_qty": float(o.leaves_qty), "price": float(o.price), "qty": float(o.qty)}
        diff = [k for k in want if want[k] != got[k]]
        if diff:
            V("quiescent-disagreement:" + "+".join(diff), f"everything in flight processed: order has {got}, exchange has {want}")
        if x.status in ordref.FINISHED:
            acc.oracle("finished-refuses")
            if not o.is_finished():
                V("finished-order-not-reported-finished", f"exchange status {x.status}, is_finished() is False")
            if cc or cr:
                V("finished-order-permits-request", f"exchange status {x.status}: can_cancel={cc} can_replace={cr}")
            for fn in (o.cancel_req, lambda: o.replace_req(price=o.price + 1)):
                o2 = copy.deepcopy(o)
                try:
                    (o2.cancel_req if fn is o.cancel_req else (lambda: o2.replace_req(price=o2.price + 1)))()
                    V("finished-order-builds-request", f"exchange status {x.status}: a request was built")
                except FIXError:
                    pass
                except Stop:
                    raise
                except Exception as e:
                    V(f"finished-order-builder-raised:{type(e).__name__}", repr(e))


def safe_repr(o):
    try:
        return repr(o)
    except Exception as e:
        return f"<repr raised {type(e).__name__}: {e}> status={o.status!r}"


def explore(acc, spec):
    """exhaustive interleavings to the depth bound with visited-state pruning; split between shards by the first two actions"""
    shard, ns = spec["shard"], spec["nshards"]
    depth = spec["depth"]
    visited = set()
    stack = [(World(), 0, ())]
    n = 0
    while stack:
        w, d, pre = stack.pop()
        if d >= depth:
            continue
        acts = w.actions()
        for i, a in enumerate(acts):
            path = pre + (a,)
            if len(path) == 3 and (hash_path(path) % ns) != shard:
                continue
            w2 = w.clone()
            cid = "x:" + ">".join(path)
            if acc.only_case is not None and not acc.only_case.startswith(cid) and not cid.startswith(acc.only_case):
                continue
            try:
                apply(acc, w2, a, cid)
            except Stop:
                continue
            if len(path) >= 3 or shard == 0:
                acc.case_disjoint()
                n += 1
            k = (w2.key(), depth - d)
            if k in visited:
                acc.add("pruned_by_visited_state")
                continue
            visited.add(k)
            stack.append((w2, d + 1, path))
    acc.add("exhaustive_states", len(visited))


def hash_path(path):
    h = 0
    for a in path:
        for ch in a:
            h = (h * 131 + ord(ch)) % 1000003
    return h


def random_walk(acc, rnd, cid):
    root = rnd.choice(ROOTS)
    qty = rnd.choice([1, 2, 7, 10, 100, 10 ** 6])
    w = World(root, qty, rnd.choice([0.01, 1.0, 100.0, 12345.5]))
    bias_client = rnd.random()
    for step in range(40):
        acts = w.actions()
        if not acts:
            break
        ca = [a for a in acts if a.startswith("c:")]
        xa = [a for a in acts if a.startswith("x:")]
        pool = ca if (ca and (not xa or rnd.random() < bias_client)) else xa
        a = rnd.choice(pool)
        try:
            apply(acc, w, a, cid)
        except Stop:
            return w
    # drain: process everything in flight, then the quiescence monitor has run inside apply()
    for _ in range(60):
        acts = w.actions()
        pri = [a for a in acts if a == "c:process-report"] or [a for a in acts if a.startswith("x:req:")] or [a for a in acts if a.startswith("x:pending:")] \
            or [a for a in acts if a in ("x:ack", "x:reject")]
        if not pri:
            break
        try:
            apply(acc, w, rnd.choice(pri), cid)
        except Stop:
            return w
    return w


def run_shard(spec, acc):
    from asyncfix.protocol import FIXNewOrderSingle as O
    from vf.core.reach import Reach
    acc.reach_obj = Reach({"new_req": O.new_req, "cancel_req": O.cancel_req, "replace_req": O.replace_req, "process_execution_report": O.process_execution_report,
                           "process_cancel_rej_report": O.process_cancel_rej_report, "change_status": O.change_status, "clord_root": O.clord_root,
                           "clord_next": O.clord_next}).start()
    shard = spec["shard"]
    if acc.only_case is None or acc.only_case.startswith("x:"):
        explore(acc, spec)
    for c in range(spec["nrand"]):
        cid = f"w:{shard}:{c}"
        if not acc.want(cid):
            continue
        rnd = random.Random(f"{spec['seed']}:C17:{shard}:{c}")
        w = random_walk(acc, rnd, cid)
        acc.case(tuple(w.trace))
        if c < 2:
            acc.sample({"root": w.root, "trace": w.trace[:40]}, 2)
    acc.reach_obj.stop()
