"""C18  Message containers behave as ordered tag maps with strict duplicate rules (reference-model monitor)."""
import copy
import pickle
import random

META = {
    "level": "exploration",
    "rule": ("random sequences of 30 (quick) / 50 (thorough) operations on FIXContainer / FIXMessage and on containers nested up to 3 deep: "
             "set / replace / __setitem__ / delete / get (with and without default) / __getitem__ / contains / is_group / add_group at every "
             "index 0..len and -1 / set_group / get_group_list / get_group_by_tag / get_group_by_index / query / items / == with equal and "
             "single-difference containers and dicts (incl. framing tags) / pickle round trip; tags spelled as int, decimal string or FTag "
             "member, values str (printable ASCII incl. | = > [), int, float, FMsg / FTag / FOrdStatus members; each return value or "
             "exception class compared with an ordered-list model, full structural comparison every 5 steps; distinct = hash of the op "
             "trace; non-trivial = trace contains a group operation, a refused set and an equality test"),
    "assumptions": ["unspecified and never judged: tags written with leading zeros ('007'), whether negative group indexes count from the end, which message error add_group onto a plain "
                    "tag raises, deleting a missing tag, class objects as values, equality of permuted containers, gtag naming a nested group"],
}
REQUIRED_ORACLES = ["op-outcome", "structure", "equality", "pickle"]
NSHARDS = 16
N = {"quick": 400, "thorough": 6000}


def plan(tier, seed):
    return [{"shard": i, "n": N[tier], "ops": 30 if tier == "quick" else 50} for i in range(NSHARDS)]


# ---- model: list of [tag, value]; value str or list of models (group)

def m_find(m, tag):
    for i, (t, v) in enumerate(m):
        if t == tag:
            return i
    return -1


def m_copy(m):
    return [[t, ([m_copy(x) for x in v] if isinstance(v, list) else v)] for t, v in m]


def walk(c):
    out = []
    for t, v in c.tags.items():
        if hasattr(v, "groups"):
            out.append([str(t), [walk(g) for g in v.groups]])
        else:
            out.append([str(t), v])
    return out


def build(cls, m, *a):
    from asyncfix.message import FIXContainer
    c = cls(*a)
    for t, v in m:
        if isinstance(v, list):
            c.set_group(t, [build(FIXContainer, x) for x in v])
        else:
            c.set(t, v)
    return c


def m_str(m):
    """what the documented string form looks like is not used by the oracle; only used to classify the known finding"""
    return None


def run_seq(acc, rnd, nops, cid):
    from asyncfix import FMsg, FTag, FIXMessage
    from asyncfix.errors import (DuplicatedTagError, FIXMessageError, RepeatingTagError, TagNotFoundError, UnmappedRepeatedGrpError)
    from asyncfix.message import FIXContainer
    from asyncfix.protocol.common import FOrdStatus
    TAGS = ["1", "11", "38", "44", "55", "58", "453", "448", "447", "452", "802", "523", "9999", "20001"]
    FT = {t: FTag(t) for t in TAGS if t in FTag._value2member_map_}

    def tagform(t):
        r = rnd.random()
        if r < 0.4:
            return int(t)
        if r < 0.7:
            return t
        return FT.get(t, int(t))

    def rval():
        r = rnd.random()
        if r < 0.06:
            return ""          # a zero-length value is a value: the tag is there, and it is a plain tag
        if r < 0.5:
            return "".join(rnd.choice("abcXYZ019 |=>[]#.-") for _ in range(rnd.randrange(1, 8)))
        if r < 0.65:
            return rnd.randrange(-5, 10 ** 6)
        if r < 0.75:
            return rnd.choice([1.5, 0.1, 100.0, -2.25, 1e-7, 123456789.125])
        if r < 0.85:
            return rnd.choice(list(FMsg))
        if r < 0.92:
            return rnd.choice(list(FOrdStatus))
        return rnd.choice(list(FT.values()))

    def ritem(depth):
        m = []
        for t in rnd.sample(TAGS, rnd.randrange(1, 4)):
            if depth < 2 and rnd.random() < 0.2:
                m.append([t, [ritem(depth + 1) for _ in range(rnd.randrange(1, 3))]])
            else:
                m.append([t, str(rval())])
        return m

    def share_pair(item, sibling):
        """two different items of one group that carry the same value under the same inner tag (two parties with the same role)"""
        plain = [(tt, vv) for tt, vv in sibling if not isinstance(vv, list)]
        if not plain:
            return
        tt, vv = rnd.choice(plain)
        k = m_find(item, tt)
        if k >= 0:
            if isinstance(item[k][1], list):
                return
            item[k][1] = vv
        else:
            item.insert(rnd.randrange(len(item) + 1), [tt, vv])
        feats.add("shared-inner-value")

    is_msg = rnd.random() < 0.5
    root = FIXMessage(rnd.choice(["D", FMsg.EXECUTIONREPORT, "XX"])) if is_msg else FIXContainer()
    model = []
    trace = []
    feats = set()

    def V(key, what):
        acc.violation(key, what, {"trace": trace[-20:], "model": model}, cid)

    def pick():
        """a (container, model) pair: the root or a nested item"""
        c, m = root, model
        for _ in range(3):
            groups = [(t, v) for t, v in m if isinstance(v, list) and v]
            if not groups or rnd.random() < 0.5:
                break
            t, items = rnd.choice(groups)
            i = rnd.randrange(len(items))
            try:
                c = c.get_group_list(t)[i]
            except Exception as e:
                V("group-navigation-raised", f"{type(e).__name__}: {e}")
                return root, model
            m = items[i]
        return c, m

    def outcome(fn):
        try:
            return ("ret", fn())
        except (DuplicatedTagError, TagNotFoundError, UnmappedRepeatedGrpError, RepeatingTagError) as e:
            return ("exc", type(e).__name__)
        except FIXMessageError as e:
            return ("exc", "FIXMessageError" if type(e) is FIXMessageError else type(e).__name__)
        except Exception as e:
            return ("exc", type(e).__name__)

    def expect(name, got, exp):
        acc.oracle("op-outcome")
        if got != exp:
            V(f"op:{name}", f"{name}: got {got!r} expected {exp!r}")

    for step in range(nops):
        c, m = pick()
        op = rnd.choice(["set", "set", "set", "setitem", "replace", "del", "get", "get", "getdef", "contains", "is_group", "add_group", "add_group",
                         "set_group", "group_list", "by_tag", "by_index", "query", "eq", "eqdict", "pickle", "badtag", "badgroup", "items"])
        t = rnd.choice(TAGS)
        tf = tagform(t)
        i = m_find(m, t)
        trace.append((op, str(tf), type(tf).__name__))
        if op in ("set", "setitem", "replace"):
            v = rval()
            rep = op == "replace"
            if op == "setitem":
                got = outcome(lambda: c.__setitem__(tf, v))
            else:
                got = outcome(lambda: c.set(tf, v, replace=rep))
            if i >= 0 and not rep:
                feats.add("refused")
                expect(op, got, ("exc", "DuplicatedTagError"))
            else:
                expect(op, got, ("ret", None))
                if i >= 0:
                    m[i][1] = str(v)
                else:
                    m.append([t, str(v)])
        elif op == "del":
            if i < 0:
                continue
            got = outcome(lambda: c.__delitem__(tf))
            expect(op, got, ("ret", None))
            del m[i]
        elif op in ("get", "getdef"):
            use_item = rnd.random() < 0.5 and op == "get"
            if op == "getdef":
                got = outcome(lambda: c.get(tf, "DEF"))
            elif use_item:
                got = outcome(lambda: c[tf])
            else:
                got = outcome(lambda: c.get(tf))
            if i < 0:
                exp = ("ret", "DEF") if op == "getdef" else ("exc", "TagNotFoundError")
            elif isinstance(m[i][1], list):
                exp = ("exc", "FIXMessageError")
            else:
                exp = ("ret", m[i][1])
            expect(op, got, exp)
        elif op == "contains":
            expect(op, outcome(lambda: tf in c), ("ret", i >= 0))
        elif op == "is_group":
            expect(op, outcome(lambda: c.is_group(tf)), ("ret", None if i < 0 else isinstance(m[i][1], list)))
        elif op == "add_group":
            if i >= 0 and not isinstance(m[i][1], list):
                # a group item for a tag that holds a plain value: which documented error is unspecified, but it is one of the
                # library's message errors (not an AttributeError from the inside) and the container stays as it is
                acc.oracle("op-outcome")
                acc.add("add_group_onto_a_plain_tag")
                got = outcome(lambda: c.add_group(tf, {11: "x"}))
                if got[0] != "exc" or got[1] not in ("UnmappedRepeatedGrpError", "DuplicatedTagError", "FIXMessageError"):
                    V("op:add_group:onto-plain-tag", f"add_group on a tag holding a plain value: {got!r}, expected one of the documented message errors")
                continue
            feats.add("group")
            item = ritem(1)
            if i >= 0 and m[i][1] and rnd.random() < 0.4:
                share_pair(item, rnd.choice(m[i][1]))
            n = len(m[i][1]) if i >= 0 else 0
            idx = rnd.choice([-1] + list(range(0, n + 1)))
            as_dict = all(not isinstance(v, list) for _, v in item) and rnd.random() < 0.5
            arg = {tagform(tt): vv for tt, vv in item} if as_dict else build(FIXContainer, item)
            if rnd.random() < 0.3 and idx == -1:
                got = outcome(lambda: c.add_group(tf, arg))
            else:
                got = outcome(lambda: c.add_group(tf, arg, idx))
            expect(op, got, ("ret", None))
            if i < 0:
                m.append([t, [item]])
            elif idx == -1:
                m[i][1].append(item)
            else:
                m[i][1].insert(idx, item)
        elif op == "set_group":
            feats.add("group")
            items = [ritem(1) for _ in range(rnd.randrange(0, 4))]
            if len(items) >= 2 and rnd.random() < 0.5:
                share_pair(items[-1], items[0])
            args = [({tagform(tt): vv for tt, vv in it} if all(not isinstance(v, list) for _, v in it) and rnd.random() < 0.5 else build(FIXContainer, it))
                    for it in items]
            got = outcome(lambda: c.set_group(tf, args))
            if i >= 0:
                feats.add("refused")
                expect(op, got, ("exc", "DuplicatedTagError"))
            else:
                expect(op, got, ("ret", None))
                m.append([t, items])
        elif op == "group_list":
            got = outcome(lambda: [walk(g) for g in c.get_group_list(tf)])
            if i < 0:
                exp = ("exc", "TagNotFoundError")
            elif not isinstance(m[i][1], list):
                exp = ("exc", "UnmappedRepeatedGrpError")
            else:
                exp = ("ret", m[i][1])
            expect(op, got, exp)
        elif op == "by_index":
            idx = rnd.randrange(0, 4)
            if rnd.random() < 0.2 and i >= 0 and isinstance(m[i][1], list):
                # negative indexes: whether they count from the end is unspecified; what is not there is reported by the documented error
                idx = -rnd.randrange(1, 6)
                acc.oracle("op-outcome")
                acc.add("group_lookups_with_a_negative_index")
                got = outcome(lambda: walk(c.get_group_by_index(tf, idx)))
                ok = got == ("exc", "TagNotFoundError") or (-idx <= len(m[i][1]) and got == ("ret", m[i][1][idx]))
                if not ok:
                    V("op:by_index:negative-index", f"get_group_by_index({idx}) on a group of {len(m[i][1])}: {got!r}")
                continue
            got = outcome(lambda: walk(c.get_group_by_index(tf, idx)))
            if i < 0:
                exp = ("exc", "TagNotFoundError")
            elif not isinstance(m[i][1], list):
                exp = ("exc", "UnmappedRepeatedGrpError")
            elif idx >= len(m[i][1]):
                exp = ("exc", "TagNotFoundError")
            else:
                exp = ("ret", m[i][1][idx])
            expect(op, got, exp)
        elif op == "by_tag":
            gt = rnd.choice(TAGS)
            gv = None
            if i >= 0 and isinstance(m[i][1], list):
                plain = [(tt, vv) for it in m[i][1] for tt, vv in it if not isinstance(vv, list)]
                if plain and rnd.random() < 0.7:
                    gt, gv = rnd.choice(plain)
                    dup = [p_ for p_ in plain if plain.count(p_) > 1]
                    if dup and rnd.random() < 0.6:
                        gt, gv = rnd.choice(dup)      # a value that more than one item carries: the first such item is the answer
                # judged on the gtag finally used: a plain tag of one item may be a nested group in another item
                if any(isinstance(vv, list) and tt == gt for it in m[i][1] for tt, vv in it):
                    continue  # gtag names a nested group: unspecified
            gv = gv if gv is not None else "nope"
            gtf = tagform(gt)
            got = outcome(lambda: walk(c.get_group_by_tag(tf, gtf, gv)))
            if i < 0:
                exp = ("exc", "TagNotFoundError")
            elif not isinstance(m[i][1], list):
                exp = ("exc", "UnmappedRepeatedGrpError")
            else:
                hit = [it for it in m[i][1] if any(tt == gt and vv == gv for tt, vv in it)]
                exp = ("ret", hit[0]) if hit else ("exc", "TagNotFoundError")
            expect(op, got, exp)
        elif op == "query":
            qs = rnd.sample(TAGS, rnd.randrange(0, 4))
            forms = [tagform(q) for q in qs]
            got = outcome(lambda: {str(k): v for k, v in c.query(*forms).items()})
            names = qs if qs else [tt for tt, _ in m]
            if any(isinstance(vv, list) for tt, vv in m if tt in names):
                exp = ("exc", "FIXMessageError")
            else:
                d = dict((tt, vv) for tt, vv in m)
                exp = ("ret", {q: d.get(q) for q in names})
            expect(op, got, exp)
        elif op == "items":
            got = outcome(lambda: [str(k) for k, _ in c.items()])
            expect(op, got, ("ret", [tt for tt, _ in m]))
        elif op == "badtag":
            from decimal import Decimal
            tn = int(rnd.choice(TAGS))
            # also: objects that EQUAL an integer tag some container of this process has used (same hash), but are not integers
            bad = rnd.choice(["abc", "", "1.5", 1.5, None, "1e3", "0x10", "１２", "--1", float(tn), Decimal(f"{tn}.0"), float(tn) + 0.5, f"{tn}.0", complex(tn, 0)])
            if rnd.random() < 0.35:
                # spellings Python's int() tolerates but that are not integers in decimal notation: refused like any non-integer tag
                bad = rnd.choice([f" {tn}", f"{tn} ", f"+{tn}", f"{tn}_0", "٣", f"-{tn}", "１２", f"{tn}\n"])
                acc.add("tags_in_spellings_only_int_tolerates")
            before = walk(c)
            how = rnd.choice(["set", "set", "set_group", "add_group", "ctor"])
            if how == "set":
                got = outcome(lambda: c.set(bad, "v"))
            elif how == "set_group":
                got = outcome(lambda: c.set_group(bad, [{11: "x"}]))
            elif how == "add_group":
                got = outcome(lambda: c.add_group(bad, {11: "x"}))
            else:
                got = outcome(lambda: FIXContainer({bad: [{11: "x"}]}))
            trace[-1] = (op, how, repr(bad))
            if isinstance(bad, str) and bad.strip("+-_ \n０１２３４５６７８９٣").isdigit() is not None and got != ("exc", "FIXMessageError") and \
                    bad not in ("abc", "", "1.5", "1e3", "0x10", "--1") and not bad.endswith(".0"):
                acc.oracle("op-outcome")
                V("op:badtag:int-tolerated-spelling", f"{how}({bad!r}) -> {got!r}: a tag spelling that only Python's int() takes for an integer was accepted (stored verbatim)")
                break
            expect(op, got, ("exc", "FIXMessageError"))
            if walk(c) != before:
                V("refused-set-changed-container", f"set({bad!r}) raised but the container changed")
        elif op == "badgroup":
            bad = rnd.choice([["x"], "str", 5, [5], [None]])
            before = walk(c)
            if isinstance(bad, list):
                if i >= 0:
                    continue
                got = outcome(lambda: c.set_group(tf, bad))
            else:
                if i >= 0 and not isinstance(m[i][1], list):
                    continue
                got = outcome(lambda: c.add_group(tf, bad))
            expect(op, got, ("exc", "FIXMessageError"))
            if walk(c) != before:
                V("refused-group-op-changed-container", f"{bad!r}")
        elif op == "eq":
            feats.add("eq")
            acc.oracle("equality")
            same = build(type(c) if not isinstance(c, FIXMessage) else FIXContainer, m_copy(m))
            r = outcome(lambda: c == same)
            if r != ("ret", True):
                V("eq:same-content-not-equal", f"{r}")
            # single difference
            if m:
                mm = m_copy(m)
                j = rnd.randrange(len(mm))
                kind = rnd.choice(["value", "drop", "extra"])
                if kind == "value":
                    if isinstance(mm[j][1], list):
                        if mm[j][1] and mm[j][1][0]:
                            tgt = mm[j][1][0][0]
                            if isinstance(tgt[1], list):
                                continue
                            tgt[1] = tgt[1] + "x"
                        else:
                            mm[j][1].append([["1", "z"]])
                    else:
                        mm[j][1] = mm[j][1] + "x"
                elif kind == "drop":
                    del mm[j]
                else:
                    free = [x for x in TAGS if m_find(mm, x) < 0]
                    if not free:
                        continue
                    mm.append([free[0], "extra"])
                other = build(FIXContainer, mm)
                r = outcome(lambda: c == other)
                if r != ("ret", False):
                    if r == ("ret", True) and str(c) == str(other):
                        V("eq:equality-by-string-form", f"different content compares equal because str() is the same: {str(c)!r}")
                    else:
                        V("eq:different-content-equal", f"{r}: {m} vs {mm}")
        elif op == "eqdict":
            feats.add("eq")
            acc.oracle("equality")
            has_group = any(isinstance(v, list) for _, v in m)
            d = {}
            for tt, vv in m:
                d[tagform(tt)] = vv if not isinstance(vv, list) else "g"
            variant = rnd.choice(["same", "same", "framing", "value", "drop", "extra", "alias", "drop+alias"])
            if variant == "framing":
                for ft, fv in ((8, "FIX.4.4"), (9, "12"), (35, "D"), (10, "000")):
                    if m_find(m, str(ft)) < 0 and rnd.random() < 0.6:
                        d[ft] = fv
            exp_equal = True
            if variant == "value" and d:
                k0 = rnd.choice(list(d))
                d[k0] = str(d[k0]) + "x"
                exp_equal = False
            elif variant == "drop" and d:
                d.pop(rnd.choice(list(d)))
                exp_equal = False
            elif variant in ("alias", "drop+alias"):
                # the dict names one tag twice, as int and as str (same value): it still names the same SET of tags - or, with another
                # tag dropped, a smaller one although it has as many keys as the message has tags
                if len(d) < (2 if variant == "drop+alias" else 1):
                    continue
                keys_ = list(d)
                if variant == "drop+alias":
                    d.pop(keys_.pop(rnd.randrange(len(keys_))))
                    exp_equal = False
                k0 = rnd.choice(keys_)
                alt = str(int(k0)) if not isinstance(k0, str) else int(k0)
                if alt in d:
                    continue
                d[alt] = d[k0]
            elif variant == "extra":
                free = [x for x in TAGS if m_find(m, x) < 0]
                if not free:
                    continue
                d[int(free[0])] = "extra"
                exp_equal = False
            r = outcome(lambda: c == d)
            trace[-1] = (op, variant, has_group)
            if has_group:
                if r not in (("exc", "FIXMessageError"), ("ret", False)) or (exp_equal and variant != "framing" and r != ("exc", "FIXMessageError")):
                    V("eqdict:group-handling", f"{variant}: {r}")
            elif variant == "framing":
                if r != ("ret", True):
                    if r[0] == "exc" and r[1] == "TagNotFoundError":
                        V("eqdict:framing-tag-in-dict-raises", f"container == dict-with-framing-tags raised {r[1]} instead of ignoring them")
                    else:
                        V("eqdict:framing-tags-not-ignored", f"{r}")
            elif r != ("ret", exp_equal):
                V("eqdict:wrong-verdict", f"{variant}: {r} expected {exp_equal}; {m} vs {d}")
        elif op == "pickle":
            acc.oracle("pickle")
            r = outcome(lambda: pickle.loads(pickle.dumps(root)))
            if r[0] != "ret":
                V("pickle:raised", f"{r}")
                continue
            cp = r[1]
            if walk(cp) != model:
                V("pickle:content-differs", "")
            if not (cp == root):
                V("pickle:copy-not-equal", "")
            if isinstance(root, FIXMessage) and str(cp.msg_type) != str(root.msg_type):
                V("pickle:msg_type", "")
            try:
                cp.set(424242, "only-in-copy")
                for tt, vv in cp.tags.items():
                    if hasattr(vv, "groups") and vv.groups:
                        vv.groups[0].set(434343, "only-in-copy")
                        break
            except Exception as e:
                V("pickle:copy-not-usable", repr(e))
            if walk(root) != model:
                V("pickle:copy-not-independent", "mutating the unpickled copy changed the original")
        if step % 5 == 4:
            acc.oracle("structure")
            if walk(root) != model:
                V("structure-differs", f"container {walk(root)} model {model}")
                return trace, feats
    acc.oracle("structure")
    if walk(root) != model:
        V("structure-differs", f"container {walk(root)} model {model}")
    return trace, feats


def run_shard(spec, acc):
    from asyncfix.message import FIXContainer
    from vf.core.reach import Reach
    acc.reach_obj = Reach({"FIXContainer.set": FIXContainer.set, "FIXContainer.get": FIXContainer.get, "FIXContainer.add_group": FIXContainer.add_group,
                           "FIXContainer.set_group": FIXContainer.set_group, "FIXContainer.get_group_list": FIXContainer.get_group_list,
                           "FIXContainer.get_group_by_tag": FIXContainer.get_group_by_tag, "FIXContainer.get_group_by_index": FIXContainer.get_group_by_index,
                           "FIXContainer.query": FIXContainer.query, "FIXContainer.__eq__": FIXContainer.__eq__}).start()
    shard = spec["shard"]
    if shard == 0 and acc.want("probe:eqstr"):
        # directed probe for the listed finding
        acc.oracle("equality")
        a, b = FIXContainer({1: "a|2=b"}), FIXContainer({1: "a", 2: "b"})
        acc.case("probe:eqstr")
        if a == b:
            acc.violation("eq:equality-by-string-form", "FIXContainer({1:'a|2=b'}) == FIXContainer({1:'a', 2:'b'})", {"a": {1: "a|2=b"}, "b": {1: "a", 2: "b"}}, "probe:eqstr")
    for cidx in range(spec["n"]):
        cid = f"seq:{shard}:{cidx}"
        if not acc.want(cid):
            continue
        rnd = random.Random(f"{spec['seed']}:C18:{shard}:{cidx}")
        trace, feats = run_seq(acc, rnd, spec["ops"], cid)
        acc.case(tuple(map(str, trace)), nontrivial={"group", "refused", "eq"} <= feats)
        acc.sample({"ops": [list(map(str, t)) for t in trace[:15]]}, 2)
    acc.reach_obj.stop()
