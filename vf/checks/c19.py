"""C19  Field value validation matches the FIX datatype lexical spaces (three-zone lexical oracle)."""
import itertools
import random

from vf.ref import lexical

META = {
    "level": "exploration",
    "exhaustive": {"quick": False, "thorough": False},
    "rule": ("for every datatype without enumeration occurring in tests/FIX44.xml and tests/TT-FIX44.xml (a real SchemaField of that type "
             "taken from each parsed dictionary): all strings of length <= 3 (quick) / <= 4 (thorough) over a 13-character type-specific "
             "alphabet (digits, sign, dot, underscore, space, exponent, newline, non-ASCII digit, comma, letter), boundary values, single-"
             "character edits (substitute / delete / insert at every position) of valid date / time / MonthYear templates, calendar "
             "boundary values, random members of the lexical space; for every enumerated field all enumerators and 6 near-misses each; "
             "verdict = SchemaField.validate_value's (True / FIXMessageError / anything else) against vf.ref.lexical's accept / reject / "
             "unspecified zones; distinct = (type, string) pairs counted once; non-trivial = string in the accept or reject zone"),
    "assumptions": ["unspecified and never judged: '.5', leading zeros beyond the field width, fractional seconds other than 3 digits, '=' in "
                    "String/char, codes shorter than the bound or not upper-case letters, second 60 (leap second), year 0000, DATA / LENGTH, empty string, "
                    "multi-valued MultipleValueString"],
}
REQUIRED_ORACLES = ["typed-value", "enumerator", "enum-near-miss", "endseqno-zero"]
NSHARDS = 16

NUM_ALPHA = ["0", "1", "9", "-", "+", ".", "_", " ", "e", "٣", "\n", "a", ","]
STR_ALPHA = ["Y", "N", "y", "n", " ", "=", "\x01", "a", "1", "é", "~", "\t"]
CODE_ALPHA = ["A", "Z", "b", "1", "_", " ", "-", "é", "\x01", ".", "А"]


def plan(tier, seed):
    return [{"shard": i, "nshards": NSHARDS, "maxlen": 3 if tier == "quick" else 4, "nrand": 300 if tier == "quick" else 3000} for i in range(NSHARDS)]


def strings_upto(alpha, n):
    for k in range(1, n + 1):
        for tup in itertools.product(alpha, repeat=k):
            yield "".join(tup)


def edits(s, alpha):
    out = set()
    for i in range(len(s)):
        out.add(s[:i] + s[i + 1:])
        for c in alpha:
            out.add(s[:i] + c + s[i + 1:])
    for i in range(len(s) + 1):
        for c in alpha:
            out.add(s[:i] + c + s[i:])
    out.discard(s)
    return sorted(out)


DT_ALPHA = ["0", "1", "3", "9", "-", ":", ".", " ", "w", "T", "/"]


def date_values():
    v = []
    for y in ("2023", "2024", "1999", "0001", "9999", "0000"):
        for md in ("0101", "0131", "0132", "0100", "0001", "1231", "1301", "0228", "0229", "0230", "0430", "0431", "0631", "1130", "1131"):
            v.append(y + md)
    v += ["2023011", "202311", "20231", "2023-01-01", "20230101 ", " 20230101", "202301011", "2023 101", "２０２３０１０１"]
    return v


def time_values():
    v = []
    for h in ("00", "23", "24", "12", "1", "99"):
        for m in ("00", "59", "60", "5"):
            for s in ("00", "59", "60", "61", "62", "7", "99"):
                v.append(f"{h}:{m}:{s}")
    v += ["12:30:15.123", "12:30:15.1", "12:30:15.123456", "12:30:15.", "12:30:15.1234567", "12:30", "12:30:15 ", "123015", "12.30.15", "12:30:15.abc",
          "12:30:15,123", "1:2:3", "01:2:03"]
    return v


def typed_cases(t, maxlen, rnd, nrand):
    """strings to try for datatype t"""
    t = t.upper()
    out = []
    if t in ("INT", "SEQNUM", "NUMINGROUP", "DAYOFMONTH") or t in lexical.FLOATS:
        out += list(strings_upto(NUM_ALPHA, maxlen))
        out += ["-0", "00", "007", "-007", "2147483648", "-9223372036854775809", "1" * 40, "0.0", "1.", ".5", "-.5", "1.5.2", "--1", "1-", "inf", "-inf",
                "nan", "NaN", "Infinity", "1e5", "1E5", "1e-5", "0x10", "1_000", " 5", "5 ", "+5", "5\n", "\t5", "٣", "１２", "1,5", "1 5", "31", "32", "0",
                "-1", "1.0", "31.0", "5e0", "1e400", "-1e400", "0.000000000000001", "123456789012345.5"]
        for _ in range(nrand):
            if t in lexical.FLOATS:
                out.append(("-" if rnd.random() < 0.3 else "") + str(rnd.randrange(0, 10 ** rnd.randrange(1, 12))) +
                           ("." + "".join(rnd.choice("0123456789") for _ in range(rnd.randrange(0, 8))) if rnd.random() < 0.7 else ""))
            else:
                out.append(("-" if rnd.random() < 0.2 else "") + ("0" * rnd.randrange(0, 3)) + str(rnd.randrange(0, 10 ** rnd.randrange(1, 12))))
    elif t in ("BOOLEAN", "CHAR", "STRING", "MULTIPLEVALUESTRING", "MULTIPLESTRINGVALUE"):
        out += list(strings_upto(STR_ALPHA, maxlen))
        out += ["YES", "Y ", " Y", "true", "0", "1", "a\x01b", "\x01", "ab", "x" * 300]
        for _ in range(nrand):
            out.append("".join(chr(rnd.randrange(0x20, 0x7F)) for _ in range(rnd.randrange(1, 30))).replace("=", "-"))
    elif t in lexical.CODES:
        out += list(strings_upto(CODE_ALPHA, min(maxlen + 1, lexical.CODES[t] + 1)))
        out += ["USD", "EUR", "US", "U", "USDX", "US D", "XNYS", "XNYSE", "GB", "GBR", "us", "U$D", "US\x01"]
        for _ in range(nrand // 3):
            n = lexical.CODES[t]
            out.append("".join(rnd.choice("ABCDEFGHIJKLMNOPQRSTUVWXYZ") for _ in range(n)))
    elif t in ("LOCALMKTDATE", "UTCDATEONLY"):
        out += date_values()
        for tpl in ("20230115", "20241231"):
            out += edits(tpl, DT_ALPHA)
        for _ in range(nrand // 3):
            y, m = rnd.randrange(1, 9999), rnd.randrange(1, 13)
            out.append(f"{y:04d}{m:02d}{rnd.randrange(1, 29):02d}")
    elif t == "UTCTIMEONLY":
        out += time_values()
        for tpl in ("12:30:15", "23:59:59.999"):
            out += edits(tpl, DT_ALPHA)
        for _ in range(nrand // 3):
            out.append(f"{rnd.randrange(24):02d}:{rnd.randrange(60):02d}:{rnd.randrange(60):02d}" + (f".{rnd.randrange(1000):03d}" if rnd.random() < 0.5 else ""))
    elif t == "UTCTIMESTAMP":
        for d in date_values()[:30] + ["20230101", "2023011", "20240229", "20230229"]:
            for tm in ("12:30:15", "12:30:15.123", "24:00:00", "1:2:3", "12:30:60", "12:60:00"):
                out.append(d + "-" + tm)
        for tm in time_values():
            out.append("20230115-" + tm)
        for tpl in ("20230115-12:30:15", "20241231-23:59:59.999"):
            out += edits(tpl, DT_ALPHA)
        out += ["20230115 12:30:15", "20230115T12:30:15", "2023011512:30:15", "20230115-", "20230115", "20230115-12:30:15Z", "20230115-12:30:15+01"]
        for _ in range(nrand // 3):
            y, m = rnd.randrange(1, 9999), rnd.randrange(1, 13)
            out.append(f"{y:04d}{m:02d}{rnd.randrange(1, 29):02d}-{rnd.randrange(24):02d}:{rnd.randrange(60):02d}:{rnd.randrange(60):02d}" +
                       (f".{rnd.randrange(1000):03d}" if rnd.random() < 0.5 else ""))
    elif t == "MONTHYEAR":
        out += date_values()
        for ym in ("202301", "202313", "202300", "000001", "999912", "20231", "2023"):
            out.append(ym)
            for w in ("w1", "w5", "w0", "w6", "W1", "w", "ww", "1w", "w12"):
                out.append(ym + w)
        for tpl in ("202306", "20230615", "202306w3"):
            out += edits(tpl, DT_ALPHA)
    return out


def classify(t, s, zone, outcome):
    """mechanism key for a disagreement"""
    t = t.upper()
    if outcome[0] == "other":
        return f"other-exception:{outcome[1]}:{'numeric' if (t in lexical.FLOATS or t in ('INT', 'SEQNUM', 'NUMINGROUP', 'DAYOFMONTH')) else t}"
    if zone == "reject" and outcome[0] == "accept":
        if t in lexical.FLOATS or t in ("INT", "SEQNUM", "NUMINGROUP", "DAYOFMONTH"):
            return "python-int-float-grammar-accepted"
        if t in ("LOCALMKTDATE", "UTCDATEONLY", "UTCTIMEONLY", "UTCTIMESTAMP", "MONTHYEAR"):
            return "strptime-lenient-layout-accepted"
        if t in lexical.CODES:
            return "code-with-underscore-or-non-ascii-letter-accepted"
        return f"must-reject-accepted:{t}"
    return f"must-accept-rejected:{t}"


def run_shard(spec, acc):
    import os
    import warnings
    from asyncfix.errors import FIXMessageError
    from asyncfix.protocol import FIXSchema
    from asyncfix.protocol.schema import SchemaField
    from vf.core import repoimport
    from vf.core.reach import Reach
    warnings.simplefilter("ignore")
    acc.reach_obj = Reach({"validate_value": SchemaField.validate_value, "_validate_value_number": SchemaField._validate_value_number,
                           "_validate_value_str": SchemaField._validate_value_str, "_validate_value_datetime": SchemaField._validate_value_datetime,
                           "_validate_value_monthyear": SchemaField._validate_value_monthyear,
                           "_validate_special_cases": SchemaField._validate_special_cases}).start()
    shard, nsh = spec["shard"], spec["nshards"]
    schemas = [FIXSchema(os.path.join(repoimport.REPO, "tests", f)) for f in ("FIX44.xml", "TT-FIX44.xml")]

    def call(field, s):
        try:
            r = field.validate_value(s)
            return ("accept", r) if r is True else ("other", f"returned {r!r}")
        except FIXMessageError as e:
            return ("reject", None)
        except Exception as e:
            return ("other", type(e).__name__)

    # ---- typed fields
    seen = set()
    work = []
    for si, sch in enumerate(schemas):
        bytype = {}
        for tag, f in sorted(sch._tag2field.items(), key=lambda kv: int(kv[0])):
            if not f.values and tag != "16":
                bytype.setdefault(f.ftype.upper(), f)
        for t, f in sorted(bytype.items()):
            work.append((si, t, f))
    idx = 0
    for si, t, f in work:
        rnd = random.Random(f"{spec['seed']}:C19:{t}")
        for s in [""] + typed_cases(t, spec["maxlen"], rnd, spec["nrand"]):
            idx += 1
            if idx % nsh != shard:
                continue
            if (t, s) in seen and si == 1:
                pass
            cid = f"typed:{si}:{t}:{s!r}"
            if not acc.want(cid):
                continue
            z = lexical.zone(t, s)
            o = call(f, s)
            acc.oracle("typed-value")
            acc.addmap("zone_counts", f"{t}:{z}")
            acc.case((t, s), nontrivial=z != "u")
            if o[0] == "other" and z != "u":
                acc.violation(classify(t, s, z, o), f"{t} field {f.name}: validate_value({s!r}) -> {o}", {"type": t, "field": f.name, "value": s, "zone": z}, cid)
            elif o[0] == "other":
                # even in the unspecified zone a rejection must be the library's message error
                acc.violation(classify(t, s, z, o), f"{t} field {f.name}: validate_value({s!r}) -> {o}", {"type": t, "field": f.name, "value": s, "zone": z}, cid)
            elif z == "accept" and o[0] != "accept":
                acc.violation(classify(t, s, z, o), f"{t} field {f.name}: {s!r} is in the lexical space but was rejected", {"type": t, "field": f.name, "value": s}, cid)
            elif z == "reject" and o[0] != "reject":
                acc.violation(classify(t, s, z, o), f"{t} field {f.name}: {s!r} is outside the lexical space but was accepted", {"type": t, "field": f.name, "value": s}, cid)
    acc.sample({"typed_example": {"type": work[0][1], "field": work[0][2].name, "strings": typed_cases(work[0][1], 1, random.Random(1), 2)[:8]}}, 1)
    # ---- EndSeqNo special case
    if shard == 0:
        for sch in schemas:
            f = sch._tag2field["16"]
            for s, exp in (("0", "accept"), ("1", "accept"), ("15", "accept"), ("-1", "reject"), ("00", "u"), ("0 ", "reject"), ("+0", "reject"), ("a", "reject")):
                acc.oracle("endseqno-zero")
                acc.case(("endseqno", s, id(sch)))
                o = call(f, s)
                if exp != "u" and o[0] != exp:
                    key = "python-int-float-grammar-accepted" if (exp == "reject" and o[0] == "accept") else "endseqno-special-case"
                    acc.violation(key, f"EndSeqNo {s!r} -> {o}", {"value": s}, f"endseqno:{s}")
        # the EndSeqNo exception is EndSeqNo's alone: after it was exercised on this schema, no other SeqNum / NumInGroup field
        # of the same schema object may accept zero (verdicts must not depend on what was validated before)
        for sch in schemas:
            for tag, f in sorted(sch._tag2field.items(), key=lambda kv: int(kv[0])):
                if tag == "16" or f.values or f.ftype.upper() not in ("SEQNUM", "NUMINGROUP"):
                    continue
                acc.oracle("endseqno-zero")
                acc.case(("zero-after-endseqno", tag, id(sch)))
                o = call(f, "0")
                if o[0] != "reject":
                    acc.violation("zero-accepted-after-endseqno-zero", f"{f.ftype} field {f.name}({tag}): '0' -> {o} after EndSeqNo=0 was validated on the same schema",
                                  {"field": f.name, "value": "0"}, f"zero-after:{tag}")
        # the same through whole messages (FIXSchema.validate): an open-ended ResendRequest validates, and afterwards the same schema
        # object still refuses zero in BeginSeqNo / NewSeqNo / RefSeqNum / the header's MsgSeqNum
        from asyncfix import FIXMessage
        from asyncfix.errors import FIXMessageError
        for si, sch in enumerate(schemas):
            def mv(m_):
                try:
                    return ("accept",) if sch.validate(m_) is True else ("other",)
                except FIXMessageError as e:
                    return ("reject", str(e)[:80])
                except Exception as e:      # noqa: BLE001
                    return ("raised", type(e).__name__)
            hdr = {8: "FIX.4.4", 9: 100, 49: "S", 56: "T", 34: 5, 52: "20240101-00:00:00.000", 10: "000"}
            ok = mv(FIXMessage("2", {7: 1, 16: 0}))
            acc.oracle("endseqno-zero")
            acc.case(("msg-endseqno", si))
            if ok[0] != "accept":
                acc.violation("endseqno-special-case", f"ResendRequest(7=1, 16=0) through FIXSchema.validate -> {ok}", {"schema": si}, f"msg-endseqno:{si}")
                continue
            for label, m_ in (("BeginSeqNo", FIXMessage("2", {7: 0, 16: 5})), ("NewSeqNo", FIXMessage("4", {36: 0})), ("NewSeqNo+GapFill", FIXMessage("4", {123: "Y", 36: 0})),
                              ("RefSeqNum", FIXMessage("3", {45: 0, 58: "x"})), ("header MsgSeqNum", FIXMessage("0", {**hdr, 34: 0}))):
                acc.oracle("endseqno-zero")
                acc.case(("msg-zero-after-endseqno", si, label))
                o = mv(m_)
                if o[0] == "accept":
                    acc.violation("zero-accepted-after-endseqno-zero", f"{label}=0 accepted by FIXSchema.validate after a ResendRequest with EndSeqNo=0 was validated on the same schema",
                                  {"field": label, "value": "0"}, f"msg-zero-after:{si}:{label}")
                elif o[0] not in ("reject",):
                    acc.violation("validate-raised-other", f"{label}=0 -> {o}", {"field": label}, f"msg-zero-after:{si}:{label}")
    # ---- enumerated fields
    eidx = 0
    for si, sch in enumerate(schemas):
        for tag, f in sorted(sch._tag2field.items(), key=lambda kv: int(kv[0])):
            if not f.values:
                continue
            eidx += 1
            if eidx % nsh != shard:
                continue
            vals = list(f.values)
            multi = f.ftype.upper() in ("MULTIPLEVALUESTRING", "MULTIPLESTRINGVALUE")
            for v in vals:
                cid = f"enum:{si}:{tag}:{v!r}"
                if not acc.want(cid):
                    continue
                acc.oracle("enumerator")
                acc.case(("enum", si, tag, v))
                o = call(f, v)
                if o[0] != "accept":
                    acc.violation("enumerator-rejected", f"field {f.name} enumerator {v!r} -> {o}", {"field": f.name, "value": v}, cid)
                near = {v + "x", "x" + v, v + " ", " " + v, v.swapcase(), v[:-1], v + v, chr((ord(v[-1]) + 1) % 0x7F or 0x21) if v else "?"}
                for nm in sorted(near):
                    if nm == "" or nm in f.values:
                        continue
                    if multi and all(p in f.values for p in nm.split(" ") if p):
                        continue
                    acc.oracle("enum-near-miss")
                    acc.case(("near", si, tag, nm))
                    o = call(f, nm)
                    if o[0] != "reject":
                        acc.violation("enum-near-miss-not-rejected" if o[0] == "accept" else f"other-exception:{o[1]}:enum",
                                      f"field {f.name} ({f.ftype}) near-miss {nm!r} of {v!r} -> {o}", {"field": f.name, "value": nm}, cid)
    acc.reach_obj.stop()
