"""C20  The bundled test helper fabricates valid, consistent counterparty traffic.

Part 1: real orders are walked through reachable states (exchange simulator of C17); in every state every argument
combination of FIXTester.fix_exec_report_msg / fix_cxlrep_reject_msg / msg_* that the helper's own assertions accept is
fabricated by a FIXTester built WITHOUT a schema (so the helper cannot pre-filter) and judged: dictionary validity
(library schema of FIX44.xml + the independent dictionary reader), quantity arithmetic, fresh ExecID, stable OrderID,
processing by the order object without error.
Part 2: clean scripts are run twice - against FIXTester(connection=...)'s simulated acceptor and against a real acceptor
endpoint on the in-memory link - and what the initiator sees (its frames with SendingTime masked, states, callbacks,
counters) must be identical.
"""
import copy
import math
import random

from vf.ref import dictref, fixwire, lexical, ordref

META = {
    "level": "exploration",
    "rule": ("part 1: random order walks of 25 steps (exchange simulator), in every state: ExecType (17) x OrdStatus (14 FIX values) x quantity "
             "triples (defaults / exchange-consistent / boundary) x ClOrdID in {current, original} x price/order_qty overrides through "
             "fix_exec_report_msg, every OrdStatus through fix_cxlrep_reject_msg on real cancel/replace requests, msg_logon/logout/heartbeat/"
             "test_request/sequence_reset/resend_request over argument grids; accepted combinations must validate against FIX44.xml, keep CumQty + "
             "LeavesQty <= OrderQty and LeavesQty = 0 for finished statuses, carry a fresh ExecID and the order's one OrderID, and be processed by "
             "the order object without error; part 2: scripts of logon, 0-6 application messages each way, TestRequest either way, Logout either "
             "way, run against the simulated acceptor and against a real acceptor; distinct = (state, arguments) / script; non-trivial = accepted combination / script with traffic both ways"),
    "assumptions": ["a combination the helper refuses with AssertionError is 'not accepted' and not judged",
                    "validity = the library's FIXSchema(FIX44.xml) (judged by C15) plus the independent reader: required members, allowed members, value zones accept or unspecified",
                    "part 2 compares the initiator's view only; scripts are clean (no gaps, no faults)"],
}
REQUIRED_ORACLES = ["fabricated-validates", "quantities", "execid-fresh", "orderid-stable", "order-processes", "session-msg-validates", "acceptor-fidelity"]
NSHARDS = 16
NWALK = {"quick": 6, "thorough": 150}
NSCRIPT = {"quick": 12, "thorough": 500}
EXEC_TYPES = ["0", "3", "4", "5", "6", "7", "8", "9", "A", "B", "C", "D", "E", "F", "G", "H", "I"]
STATUSES = ["0", "1", "2", "3", "4", "6", "7", "8", "9", "A", "B", "C", "D", "E"]


def plan(tier, seed):
    return [{"shard": i, "nshards": NSHARDS, "nwalk": NWALK[tier], "nscript": NSCRIPT[tier]} for i in range(NSHARDS)]


_cache = {}


def refs():
    from asyncfix.protocol import FIXSchema
    from vf.core import repoimport
    if "s" not in _cache:
        path = repoimport.REPO + "/tests/FIX44.xml"
        _cache["s"] = FIXSchema(path)
        _cache["d"] = dictref.Dict(path)
    return _cache["s"], _cache["d"]


def independent_validity(dic, m):
    """None if fine, else a reason.  m: FIXMessage.  Checks required / allowed top-level members and value zones (reject only)."""
    mt = m.msg_type
    mt = getattr(mt, "value", mt)
    if mt not in dic.messages:
        return f"message type {mt} not in dictionary"
    members = {n["tag"]: n for n in dic.messages[mt]["members"]}
    for t, n in members.items():
        if n["strict"] and t not in m:
            return f"required {n['name']}({t}) missing"
    for t, v in m.tags.items():
        if t in dic.header_tags or t in dic.trailer_tags:
            continue
        if t not in dic.by_tag:
            return f"tag {t} unknown to the dictionary"
        if t not in members:
            return f"{dic.by_tag[t]['name']}({t}) not allowed in {dic.messages[mt]['name']}"
        n = members[t]
        if n["kind"] == "field" and not isinstance(v, list):
            sv = str(v)
            if n["enum"]:
                if sv not in n["enum"]:
                    return f"{n['name']}({t})={sv!r} not in enumeration"
            elif t == "16" and sv == "0":
                pass            # EndSeqNo=0 ("everything after BeginSeqNo") is the one zero a SeqNum field may carry
            elif lexical.zone(n["type"], sv) == "reject":
                return f"{n['name']}({t})={sv!r} outside the lexical space of {n['type']}"
    return None


# ------------------------------------------------------------------ part 1
def fabricate_reports(acc, ft, w, rnd, cid, seen_exec, order_ids):
    """all accepted combinations for the order's current state"""
    from asyncfix.errors import FIXError
    from asyncfix.protocol.common import FExecType, FOrdStatus
    schema, dic = refs()
    o, x = w.o, w.x
    ids = [o.clord_id] + ([o.orig_clord_id] if o.orig_clord_id else [])
    qty_sets = [(math.nan, math.nan, math.nan)]
    if x.qty is not None:
        qty_sets.append((x.cum, x.leaves, math.nan))
        qty_sets.append((0.0, float(o.qty), math.nan))
        qty_sets.append((float(o.qty), 0.0, math.nan))
        if o.cum_qty < o.qty:
            half = (o.qty - o.cum_qty) / 2
            qty_sets.append((o.cum_qty + half, o.qty - o.cum_qty - half, half))
            qty_sets.append((float(o.qty), 0.0, o.qty - o.cum_qty))
        # one quantity given, the other left to its default (the order's current value)
        for cq in {0.0, float(o.cum_qty), float(o.cum_qty) + 1.0, float(o.qty) / 2, float(o.qty)}:
            qty_sets.append((cq, math.nan, math.nan))
            if cq > o.cum_qty:
                qty_sets.append((cq, math.nan, cq - o.cum_qty))
        for lq in {0.0, float(o.leaves_qty), float(o.qty)}:
            qty_sets.append((math.nan, lq, math.nan))
        # the sum just above the order quantity, by less than any rounding a helper might apply
        for eps in (0.0004, 0.004, 0.04, 1e-6):
            qty_sets.append((float(x.cum), float(o.qty) - float(x.cum) + eps, math.nan))
            qty_sets.append((float(o.qty) + eps, 0.0, math.nan))
            qty_sets.append((float(o.qty) / 2 + eps, float(o.qty) / 2, math.nan))
    combos = []
    for et in EXEC_TYPES:
        for st in STATUSES:
            for (cq, lq, last) in qty_sets:
                for cl in ids:
                    combos.append((et, st, cq, lq, last, cl))
    rnd.shuffle(combos)
    for (et, st, cq, lq, last, cl) in combos[:220]:
        kw = {}
        if et == "5" and rnd.random() < 0.6:
            kw["price"] = float(o.price) + 1
            kw["order_qty"] = rnd.choice([float(o.qty) + 3, max(1.0, float(o.qty) - 1), max(1.0, float(o.cum_qty)), 1.0])
        if rnd.random() < 0.2 and o.orig_clord_id:
            kw["orig_clord_id"] = o.orig_clord_id
        # the helper's arguments in every form it accepts: enum members, the FIX strings, and (the enums compare by str()) plain ints
        form = rnd.choice(["enum", "enum", "str", "int"])
        a_et = FExecType(et) if form == "enum" else (int(et) if form == "int" and et.isdigit() else et)
        a_st = FOrdStatus(st) if form == "enum" else (int(st) if form == "int" and st.isdigit() else st)
        acc.addmap("helper_argument_forms", form)
        try:
            m = ft.fix_exec_report_msg(o, cl, a_et, a_st, cum_qty=cq, leaves_qty=lq, last_qty=last, **kw)
        except AssertionError:
            acc.add("combinations_refused_by_helper")
            continue
        except Exception as e:
            acc.violation(f"helper-raised:{type(e).__name__}:fix_exec_report_msg", f"ExecType={et} OrdStatus={st} cum={cq} leaves={lq} last={last}: {e!r}",
                          {"trace": w.trace[-12:], "args": [et, st, str(cq), str(lq), str(last), cl]}, cid)
            return False
        acc.case_disjoint()
        acc.add("combinations_accepted_by_helper")
        wit = {"trace": w.trace[-12:], "args": {"exec_type": et, "ord_status": st, "cum_qty": str(cq), "leaves_qty": str(lq), "last_qty": str(last), "clord_id": cl, **{k: str(v) for k, v in kw.items()}},
               "message": str(m)[:400], "order": c17_safe(o)}
        acc.oracle("fabricated-validates")
        v = lib_verdict(schema, m)
        why = independent_validity(dic, m)
        if v != "accept" or why:
            key = "exec-report-invalid:" + (classify_invalid(why) if why else v)
            acc.violation(key, f"fix_exec_report_msg(ExecType={et}, OrdStatus={st}) fabricated a message the FIX 4.4 dictionary rejects: {why or v}", wit, cid)
            return False
        acc.oracle("quantities")
        c_, l_, q_ = float(str(m[14])), float(str(m[151])), float(str(m[38]))
        if c_ + l_ > q_ + 1e-9:
            acc.violation("cumqty-plus-leavesqty-above-orderqty", f"CumQty {c_} + LeavesQty {l_} > OrderQty {q_}", wit, cid)
            return False
        if st in ordref.FINISHED and l_ != 0:
            acc.violation("finished-status-with-leavesqty", f"OrdStatus {st} with LeavesQty {l_}", wit, cid)
            return False
        acc.oracle("execid-fresh")
        eid = str(m[17])
        if eid in seen_exec:
            acc.violation("execid-reused", f"ExecID {eid} fabricated twice", wit, cid)
            return False
        seen_exec.add(eid)
        acc.oracle("orderid-stable")
        oid = str(m[37])
        order_ids.add(oid)
        if len(order_ids) > 1:
            key = "order-id-not-stable" + (":before-first-processing" if o.order_id is None else "")
            acc.violation(key, f"reports of one order carry OrderIDs {sorted(order_ids)} (order.order_id={o.order_id!r})", wit, cid)
            return False
        acc.oracle("order-processes")
        o2 = copy.deepcopy(o)
        try:
            o2.process_execution_report(m)
        except Exception as e:
            acc.violation(f"order-raises-on-fabricated-report:{type(e).__name__}", f"process_execution_report raised {e!r}", wit, cid)
            return False
    return True


def classify_invalid(why):
    for k in ("required", "unknown", "not allowed", "enumeration", "lexical"):
        if k in why:
            return k.replace(" ", "-")
    return "other"


def lib_verdict(schema, m):
    from asyncfix.errors import FIXMessageError
    try:
        return "accept" if schema.validate(m) is True else "returned-other"
    except FIXMessageError as e:
        return "library-schema-rejects: " + str(e)[:160]
    except Exception as e:
        return f"library-schema-raised:{type(e).__name__}"


def c17_safe(o):
    try:
        return repr(o)
    except Exception as e:
        return f"<repr raised {e!r}>"


def fabricate_rejects(acc, ft, w, rnd, cid, order_ids=None):
    """cancel rejects for a real request built through the helper (on a copy: the walk itself decides what is really sent)"""
    from asyncfix.protocol.common import FOrdStatus
    schema, dic = refs()
    o = w.o
    for kind in ("cancel", "replace"):
        try:
            ok = o.can_cancel() if kind == "cancel" else o.can_replace()
        except Exception:
            ok = False
        if not ok:
            continue
        for st in STATUSES:
            o2 = copy.deepcopy(o)
            ft2 = copy.copy(ft)
            ft2.registered_orders = dict(ft.registered_orders)
            ft2.registered_orders[o2.clord_id] = o2
            try:
                req = ft2.fix_cxl_request(o2) if kind == "cancel" else ft2.fix_rep_request(o2, price=o2.price + 1)
                m = ft2.fix_cxlrep_reject_msg(req, FOrdStatus(st))
            except AssertionError:
                acc.add("combinations_refused_by_helper")
                continue
            except Exception as e:
                acc.violation(f"helper-raised:{type(e).__name__}:fix_cxlrep_reject_msg", f"{kind} reject OrdStatus={st}: {e!r}", {"trace": w.trace[-12:]}, cid)
                return False
            acc.case_disjoint()
            acc.oracle("fabricated-validates")
            wit = {"trace": w.trace[-12:], "kind": kind, "ord_status": st, "message": str(m)[:300]}
            v = lib_verdict(schema, m)
            why = independent_validity(dic, m)
            if v != "accept" or why:
                acc.violation("cancel-reject-invalid:" + (classify_invalid(why) if why else v), f"fix_cxlrep_reject_msg({kind}, OrdStatus={st}): {why or v}", wit, cid)
                return False
            # the reject is traffic of this order too: it names the order by the OrderID its reports carried
            if order_ids:
                acc.oracle("orderid-stable")
                if str(m.get(37, None)) not in order_ids:
                    acc.violation("order-id-not-stable:cancel-reject-names-another-orderid", f"the order's reports carried OrderID {sorted(order_ids)}, the helper's {kind} reject carries "
                                  f"37={m.get(37, None)!r}", wit, cid)
                    return False
            acc.oracle("order-processes")
            try:
                o2.process_cancel_rej_report(m)
            except Exception as e:
                acc.violation(f"order-raises-on-fabricated-reject:{type(e).__name__}", repr(e), wit, cid)
                return False
            # the OrderID stays what it was for everything the helper fabricates for this order afterwards
            if order_ids:
                from asyncfix.protocol.common import FExecType
                try:
                    m2 = ft2.fix_exec_report_msg(o2, o2.clord_id, FExecType("I"), o2.status)
                except AssertionError:
                    continue
                except Exception as e:
                    acc.violation(f"helper-raised:{type(e).__name__}:fix_exec_report_msg", f"after a processed cancel reject: {e!r}", wit, cid)
                    return False
                acc.oracle("orderid-stable")
                if str(m2[37]) not in order_ids:
                    acc.violation("order-id-not-stable:after-processed-cancel-reject", f"the order's reports carried OrderID {sorted(order_ids)}; after it processed the helper's "
                                  f"{kind} reject (37={m.get(37, None)!r}) the next fabricated report carries {str(m2[37])!r}", wit, cid)
                    return False
    return True


def session_messages(acc, cid, rnd):
    from asyncfix import FIXTester
    schema, dic = refs()
    ft = FIXTester(None)
    cases = [("msg_logon", ()), ("msg_logon", ({108: 5},)), ("msg_logon", ({98: 0, 108: 60, 141: "Y"},)), ("msg_logout", ()), ("msg_heartbeat", ()),
             ("msg_heartbeat", ("T1",)), ("msg_heartbeat", (12345,)), ("msg_test_request", ("T1",)), ("msg_test_request", (1700000000,)),
             ("msg_sequence_reset", (1, 10)), ("msg_sequence_reset", (5, 6, True)), ("msg_sequence_reset", (10 ** 9, 10 ** 9 + 1, False)),
             ("msg_resend_request", (1,)), ("msg_resend_request", (3, 7)), ("msg_resend_request", ("2", "0")), ("msg_resend_request", (1, 0))]
    for name, args in cases:
        try:
            m = getattr(ft, name)(*args)
        except AssertionError:
            continue
        except Exception as e:
            acc.violation(f"helper-raised:{type(e).__name__}:{name}", f"{name}{args}: {e!r}", {}, cid)
            continue
        acc.case_disjoint()
        acc.oracle("session-msg-validates")
        v = lib_verdict(schema, m)
        why = independent_validity(dic, m)
        if v != "accept" or why:
            acc.violation(f"session-message-invalid:{name}", f"{name}{args}: {why or v}", {"message": str(m)[:300]}, cid)


def order_walk(acc, rnd, cid):
    from asyncfix import FIXTester
    from vf.checks import c17
    ft = FIXTester(None)
    w = c17.World(rnd.choice(["ord", "a--b", "7x"]), rnd.choice([1, 10, 100]), rnd.choice([1.0, 100.0, 250.5]))
    ft.order_register_single(w.o)
    w.x.order_id = "1"           # the walk's exchange reports and the helper's fabrications describe the same order: the helper's first OrderID
    seen_exec, order_ids = set(), set()

    class NullAcc:
        """C17's monitors are not C20's subject: only drive the walk"""

        def oracle(self, *a):
            pass

        def violation(self, *a, **k):
            pass

        def add(self, *a):
            pass

        def addmap(self, *a):
            pass
    null = NullAcc()
    for step in range(25):
        ft.registered_orders[w.o.clord_id] = w.o
        if w.o.orig_clord_id:
            ft.registered_orders[w.o.orig_clord_id] = w.o
        if str(w.o.status) != "Z":
            if not fabricate_reports(acc, ft, w, rnd, cid, seen_exec, order_ids):
                return w
            if not fabricate_rejects(acc, ft, w, rnd, cid, order_ids):
                return w
        acts = w.actions()
        if not acts:
            break
        try:
            c17.apply(null, w, rnd.choice(acts), cid)
        except c17.Stop:
            break
    return w


# ------------------------------------------------------------------ part 2
def gen_script(rnd):
    # a session resumed with these (next_num_in, next_num_out) on the initiator; the acceptor has the mirror image
    s = ["resume:%d:%d" % rnd.choice([(1, 1), (1, 1), (5, 8), (12, 3), (2, 2), (40, 41)]), "logon"]
    for _ in range(rnd.randrange(0, 7)):
        s.append(rnd.choice(["app:I", "app:A", "app:I", "app:A", "testreq:I", "testreq:A", "hb:I"]))
    if rnd.random() < 0.3:
        # the test author hands the helper a report the dictionary refuses (the helper then has a schema attached): refused, and the
        # exchange around it is what it would have been without the attempt
        s.insert(rnd.randrange(2, len(s) + 1), "badreply:A")
    s.append(rnd.choice(["logout:I", "logout:A", "none"]))
    return s


def mask(frame):
    try:
        f = fixwire.parse(frame)
    except fixwire.FrameError:
        return fixwire.show(frame)
    return [(t, v) for t, v in f if t not in ("52", "9", "10")]


async def run_with_helper(clock, script):
    from asyncfix import FIXMessage, FIXTester, Journaler
    from asyncfix.connection import ConnectionState as CS
    from vf.sim import endpoint as E
    j = Journaler()
    nin, nout = [int(x) for x in script[0].split(":")[1:]]
    if (nin, nout) != (1, 1):
        j.set_seq_num(j.create_or_load("ACCEPTOR", "INITIATOR"), next_num_out=nout, next_num_in=nin)
    I = E.new_endpoint("generic", "INITIATOR", "ACCEPTOR", j, hb=30, name="I")
    I._connection_state = CS.NETWORK_CONN_ESTABLISHED
    ft = FIXTester(refs()[0] if "badreply:A" in script else None, connection=I)
    tap = []
    inner = I._socket_writer.write.side_effect

    def write(data):
        tap.append(bytes(data))
        return inner(data)
    I._socket_writer.write.side_effect = write
    A = ft.conn_accept
    n = 0
    for st in script:
        n += 1
        if st == "logon":
            await I.send_msg(FIXMessage("A", {98: 0, 108: 30}))
            await ft.process_msg_acceptor()
        elif st == "app:I":
            await I.send_msg(FIXMessage("D", {11: f"i{n}", 55: "X", 54: "1", 38: 1, 40: "2", 44: 1, 60: "20240101-00:00:00"}))
            await ft.process_msg_acceptor()
        elif st == "app:A":
            await ft.reply(FIXMessage("8", {11: f"a{n}", 17: f"e{n}", 37: "O", 150: "0", 39: "0", 54: "1", 55: "X", 14: 0, 151: 1, 6: 0}))
        elif st == "badreply:A":
            from asyncfix.errors import FIXMessageError
            try:
                await ft.reply(FIXMessage("8", {11: f"bad{n}", 17: f"e{n}", 150: "not-an-exec-type"}))
                ft.vf_bad_reply_accepted = True
            except FIXMessageError:
                pass
        elif st == "testreq:I":
            await I.send_test_req()
            await ft.process_msg_acceptor()
        elif st == "testreq:A":
            if n % 2:
                await A.send_test_req()
            else:
                await ft.reply(ft.msg_test_request(int(clock.now)))      # the id a real acceptor's send_test_req() uses at this instant
            if ft.acceptor_rcv_que:
                await ft.process_msg_acceptor()
        elif st == "hb:I":
            await I.send_msg(FIXMessage("0"))
            await ft.process_msg_acceptor()
        elif st == "logout:I":
            await I.disconnect(CS.DISCONNECTED_WCONN_TODAY, logout_message="")
            if ft.acceptor_rcv_que:
                await ft.process_msg_acceptor()
        elif st == "logout:A":
            await ft.reply(ft.msg_logout())
    return view(I, j, tap)


async def run_with_real_acceptor(clock, script):
    from asyncfix import FIXMessage, Journaler
    from asyncfix.connection import ConnectionState as CS
    from vf.sim import endpoint as E
    from vf.sim.link import World
    from vf.sim.net import settle
    j = Journaler()
    ja = Journaler()
    nin, nout = [int(x) for x in script[0].split(":")[1:]]
    if (nin, nout) != (1, 1):
        j.set_seq_num(j.create_or_load("ACCEPTOR", "INITIATOR"), next_num_out=nout, next_num_in=nin)
        ja.set_seq_num(ja.create_or_load("INITIATOR", "ACCEPTOR"), next_num_out=nin, next_num_in=nout)
    w = World(clock, lambda: E.new_endpoint("generic", "INITIATOR", "ACCEPTOR", j, hb=30, name="I"),
              lambda: E.new_endpoint("server", "ACCEPTOR", "INITIATOR", ja, hb=30, name="A"))
    I, A = w.ep["I"], w.ep["A"]
    reader, writer = await w.open()
    I._socket_reader, I._socket_writer = reader, writer
    I._connection_state = CS.NETWORK_CONN_ESTABLISHED
    E.start_reader(I)
    E.start_reader(A)

    async def pump():
        for _ in range(200):
            moved = False
            for side in "AI":
                if w.in_flight(side):
                    await w.deliver(side)
                    moved = True
            if not moved:
                break
        await settle()
    n = 0
    try:
        for st in script:
            n += 1
            if st == "logon":
                await I.send_msg(FIXMessage("A", {98: 0, 108: 30}))
            elif st == "app:I":
                await I.send_msg(FIXMessage("D", {11: f"i{n}", 55: "X", 54: "1", 38: 1, 40: "2", 44: 1, 60: "20240101-00:00:00"}))
            elif st == "app:A":
                await A.send_msg(FIXMessage("8", {11: f"a{n}", 17: f"e{n}", 37: "O", 150: "0", 39: "0", 54: "1", 55: "X", 14: 0, 151: 1, 6: 0}))
            elif st == "testreq:I":
                await I.send_test_req()
            elif st == "testreq:A":
                await A.send_test_req()
            elif st == "hb:I":
                await I.send_msg(FIXMessage("0"))
            elif st == "logout:I":
                await I.disconnect(CS.DISCONNECTED_WCONN_TODAY, logout_message="")
            elif st == "logout:A":
                await A.disconnect(CS.DISCONNECTED_WCONN_TODAY, logout_message="")
            await pump()
        return view(I, j, w.tap["I"].frames())
    finally:
        w.stop()


def view(I, j, frames):
    st = j.create_or_load("ACCEPTOR", "INITIATOR")
    return {"frames": [mask(b) for b in frames], "events": [list(e) if isinstance(e, tuple) else e for e in I.ev], "state": I.connection_state.name,
            "live": [I._session.next_num_in, I._session.next_num_out], "stored": [st.next_num_in, st.next_num_out]}


def run_shard(spec, acc):
    from asyncfix import FIXTester
    from vf.core.reach import Reach
    from vf.sim import vclock
    acc.reach_obj = Reach({"fix_exec_report_msg": FIXTester.fix_exec_report_msg, "fix_cxlrep_reject_msg": FIXTester.fix_cxlrep_reject_msg,
                           "reply": FIXTester.reply, "process_msg_acceptor": FIXTester.process_msg_acceptor, "FIXTester.__init__": FIXTester.__init__,
                           "_conn_socket_write_acceptor": FIXTester._conn_socket_write_acceptor}).start()
    shard = spec["shard"]

    async def go(clock):
        if shard == 0 and (acc.only_case in (None, "session")):
            session_messages(acc, "session", random.Random(0))
        for c in range(spec["nwalk"]):
            cid = f"w:{shard}:{c}"
            if not acc.want(cid):
                continue
            rnd = random.Random(f"{spec['seed']}:C20:w:{shard}:{c}")
            w = order_walk(acc, rnd, cid)
            if c == 0:
                acc.sample({"order_walk": w.trace[:25]}, 1)
        for c in range(spec["nscript"]):
            cid = f"s:{shard}:{c}"
            if not acc.want(cid):
                continue
            rnd = random.Random(f"{spec['seed']}:C20:s:{shard}:{c}")
            script = gen_script(rnd)
            both = sum(1 for x in script if x.endswith(":A")) > 0 and sum(1 for x in script if x.endswith(":I")) > 0
            acc.case(tuple(script), nontrivial=both)
            acc.oracle("acceptor-fidelity")
            try:
                a = await run_with_helper(clock, script)
            except Exception as e:
                acc.violation(f"simulated-acceptor-raised:{type(e).__name__}", f"script {script}: {e!r}"[:500], {"script": script}, cid)
                continue
            b = await run_with_real_acceptor(clock, script)
            if a != b:
                diff = [k for k in a if a[k] != b[k]]
                first = None
                if "frames" in diff:
                    for i, (x, y) in enumerate(zip(a["frames"] + [None] * 50, b["frames"] + [None] * 50)):
                        if x != y:
                            first = {"index": i, "helper": x, "real": y}
                            break
                acc.violation("initiator-view-differs:" + "+".join(diff), f"script {script}: the initiator's {diff} differ between the simulated and a real acceptor",
                              {"script": script, "helper": {k: a[k] for k in diff if k != "frames"}, "real": {k: b[k] for k in diff if k != "frames"}, "first_frame_difference": first}, cid)
            if c == 0:
                acc.sample({"script": script, "initiator_frames": len(a["frames"])}, 1)
    vclock.run(go)
    acc.reach_obj.stop()
