"""Generator of FIX messages that are well-formed w.r.t. a repeating-group table (taken as *data*).

A generated message is a plain python structure ("spec"):
    {"mt": "D", "body": [ (tag, "value") | (tag, [ item, ... ]) ... ]}   item = same shape as body
from which (a) a FIXMessage is built through the public container API and (b) the expected flat
wire field list is derived independently.
"""
import random

HEADER = {"8", "9", "10", "35", "34", "49", "56", "52"}
NASTY = ["=", "10=", "9=", " lead", "trail ", "0123456789", "a=b=c", "|", "10=000", "35=A", "43=Y", "~", " ", "8=", "9=12", "FIX", "=FIX", "8=FIX"]
MARKERS = ["8=FIX.", "FIX.4.4", "=FIX.", "x8=FIX.4.4"]


class Table:
    def __init__(self, repeating_groups):
        self.t = {str(k): [str(m) for m in v] for k, v in repeating_groups.items()}
        self.keys = sorted(self.t, key=int)
        self.members_any = set()
        for v in self.t.values():
            self.members_any.update(v)
        # transitive member closure per key
        self.desc = {}
        for k in self.keys:
            seen = set()
            stack = [k]
            while stack:
                x = stack.pop()
                for m in self.t.get(x, []):
                    if m not in seen:
                        seen.add(m)
                        if m in self.t:
                            stack.append(m)
            self.desc[k] = seen
        # keys whose items would be ambiguous (a member of a nested group is also a member of the outer one)
        self.usable = []
        for k in self.keys:
            ok = True
            mem = self.t[k]
            if len(set(mem)) != len(mem) or k in self.desc[k]:
                ok = False
            for m in mem:
                if m in self.t:
                    if self.desc[m] & set(mem):
                        ok = False
            if ok:
                self.usable.append(k)
        self.depth = {}
        for k in self.keys:
            self.depth[k] = self._depth(k, set())

    def _depth(self, k, seen):
        if k in seen:
            return 0
        d = 1
        for m in self.t[k]:
            if m in self.t:
                d = max(d, 1 + self._depth(m, seen | {k}))
        return d


def rvalue(rnd: random.Random, charset="ascii", maxlen=40):
    r = rnd.random()
    if r < 0.18:
        v = rnd.choice(MARKERS) if rnd.random() < 0.04 else rnd.choice(NASTY)
        if rnd.random() < 0.3:
            v = v + rvalue(rnd, charset, 6)
        return v
    if r < 0.22:
        return ""
    n = rnd.randrange(1, maxlen + 1) if r < 0.9 else rnd.randrange(1, 4)
    if charset == "ascii":
        return "".join(chr(rnd.randrange(0x20, 0x7F)) for _ in range(n))
    out = []
    for _ in range(n):
        q = rnd.random()
        if q < 0.6:
            out.append(chr(rnd.randrange(0x20, 0x7F)))
        elif q < 0.75:
            out.append(chr(rnd.randrange(0xA0, 0x100)))
        elif q < 0.9:
            c = rnd.randrange(0x100, 0xD800)
            out.append(chr(c))
        elif q < 0.9995:
            out.append(chr(rnd.randrange(0x10000, 0x10FFFF)))
        else:
            out.append(chr(rnd.randrange(0xD800, 0xE000)))  # lone surrogate
    return "".join(out)


def gen_items(rnd, tab: Table, key, kmax, charset, optmode="random", nitems=None):
    mem = tab.t[key]
    n = nitems if nitems is not None else rnd.randrange(1, kmax + 1)
    items = []
    for _ in range(n):
        it = []
        for i, m in enumerate(mem):
            if i == 0:
                take = True
            elif optmode == "none":
                take = False
            elif optmode == "all":
                take = True
            elif isinstance(optmode, tuple) and optmode[0] == "only":
                take = (m == optmode[1])
            else:
                take = rnd.random() < (0.5 if len(mem) < 10 else 0.15)
            if not take:
                continue
            if m in tab.t:
                if m in tab.usable:
                    sub_opt = optmode if optmode in ("none", "all") else "random"
                    it.append((m, gen_items(rnd, tab, m, min(kmax, 2), charset, sub_opt)))
            else:
                it.append((m, rvalue(rnd, charset)))
        items.append(it)
    return items


def plain_tag(rnd, tab, after_group):
    while True:
        r = rnd.random()
        if r < 0.7:
            t = str(rnd.randrange(1, 960))
        elif r < 0.9:
            t = str(rnd.randrange(960, 10000))
        else:
            t = str(rnd.randrange(10000, 100000))
        if t in HEADER or t in tab.t or t == "43":
            continue
        if after_group and t in tab.members_any:
            continue
        return t


def gen_body(rnd, tab, kmax=3, charset="ascii", ngroups=None, nplain=None):
    body = []
    used = set()
    npre = rnd.randrange(0, 6) if nplain is None else nplain
    for _ in range(npre):
        t = plain_tag(rnd, tab, False)
        if t in used:
            continue
        used.add(t)
        body.append((t, rvalue(rnd, charset)))
    ng = ngroups if ngroups is not None else rnd.choice([0, 0, 1, 1, 1, 2, 3])
    blocked = set()
    for _ in range(ng):
        k = rnd.choice(tab.usable)
        if k in used or k in blocked:
            continue
        used.add(k)
        body.append((k, gen_items(rnd, tab, k, kmax, charset)))
        blocked |= tab.desc[k]
        blocked.add(k)
        for _ in range(rnd.randrange(0, 3)):
            t = plain_tag(rnd, tab, True)
            if t in used:
                continue
            used.add(t)
            body.append((t, rvalue(rnd, charset)))
    return body


def has_group(body):
    return any(isinstance(v, list) for _, v in body)


def flatten(body):
    out = []
    for t, v in body:
        if isinstance(v, list):
            out.append((t, str(len(v))))
            for it in v:
                out.extend(flatten(it))
        else:
            out.append((t, v))
    return out


def all_values(body):
    for t, v in body:
        if isinstance(v, list):
            for it in v:
                yield from all_values(it)
        else:
            yield v


def build_container(cls, body, *args):
    """Build through the public API (set / set_group)."""
    from asyncfix.message import FIXContainer
    c = cls(*args)
    for t, v in body:
        if isinstance(v, list):
            c.set_group(t, [build_container(FIXContainer, it) for it in v])
        else:
            c.set(t, v)
    return c


def walk_tags(container):
    """Independent structural read-back of a FIXContainer's .tags -> same shape as `body`."""
    out = []
    for t, v in container.tags.items():
        if hasattr(v, "groups"):
            out.append((str(t), [walk_tags(g) for g in v.groups]))
        elif isinstance(v, type):
            out.append((str(t), "#" + v.__name__))
        else:
            out.append((str(t), v))
    return out
