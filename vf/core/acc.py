"""Per-shard accumulator: counts, distinct hashes, oracle counters, violations, samples, reach."""
import hashlib
import json


def h8(obj) -> str:
    if not isinstance(obj, (bytes, bytearray)):
        obj = repr(obj).encode("utf-8", "backslashreplace")
    return hashlib.blake2b(obj, digest_size=8).hexdigest()


class Acc:
    def __init__(self, prop, spec):
        self.prop = prop
        self.spec = {k: v for k, v in spec.items() if k not in ("only_case",)}
        self.evaluations = 0
        self.distinct = set()
        self.distinct_count = 0
        self.oracle_counts = {}
        self.violations = []
        self._vk = {}
        self.samples = []
        self.inconcl = []
        self.extra = {}
        self.reach_obj = None
        self.only_case = spec.get("only_case")

    # -- cases
    def want(self, case_id) -> bool:
        """replay filter"""
        return self.only_case is None or self.only_case == case_id

    def case(self, distinct_key=None, nontrivial=True):
        self.evaluations += 1
        if nontrivial and distinct_key is not None:
            self.distinct.add(h8(distinct_key))

    def case_disjoint(self, nontrivial=True):
        """cases that are distinct by construction (exhaustive enumeration)"""
        self.evaluations += 1
        if nontrivial:
            self.distinct_count += 1

    def oracle(self, name, n=1):
        self.oracle_counts[name] = self.oracle_counts.get(name, 0) + n

    def violation(self, key, what, witness=None, case=None):
        n = self._vk.get(key, 0)
        self._vk[key] = n + 1
        if n < 3:
            self.violations.append({"key": key, "what": str(what)[:2000], "witness": witness, "case": case, "spec": self.spec})

    def sample(self, x, limit=4):
        if len(self.samples) < limit:
            self.samples.append(x)

    def inconclusive(self, why):
        self.inconcl.append(why)

    def add(self, k, v=1):
        self.extra[k] = self.extra.get(k, 0) + v

    def note(self, k, v):
        lst = self.extra.setdefault(k, [])
        if len(lst) < 20 and v not in lst:
            lst.append(v)

    def addmap(self, k, kk, v=1):
        d = self.extra.setdefault(k, {})
        d[kk] = d.get(kk, 0) + v

    def result(self):
        r = {
            "evaluations": self.evaluations, "distinct": sorted(self.distinct), "distinct_count": self.distinct_count,
            "oracle": self.oracle_counts, "violations": self.violations, "violation_counts": dict(self._vk), "samples": self.samples,
            "inconclusive": self.inconcl, "extra": self.extra,
        }
        if self.reach_obj is not None:
            r["reach"] = self.reach_obj.report()
        json.dumps(r, default=str)
        return r
