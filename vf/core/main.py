"""Runner:  ./check CNN quick|thorough   |   ./check CNN --replay FILE

plan -> one fresh subprocess per shard (<= ncpu in parallel) -> merge -> classify against
known_findings.json -> evidence/CNN.json -> KNOWN-FINDING / VIOLATION / INCONCLUSIVE lines
-> exit 0 / 1 / 2.
"""
import concurrent.futures as cf
import hashlib
import importlib
import json
import os
import subprocess
import sys
import tempfile
import time

ROOT = os.path.dirname(os.path.dirname(os.path.dirname(os.path.abspath(__file__))))
PY = sys.executable


def load_known():
    p = os.path.join(ROOT, "known_findings.json")
    if not os.path.exists(p):
        return []
    with open(p) as f:
        return json.load(f).get("findings", [])


def run_worker(prop, spec, timeout):
    fd, out = tempfile.mkstemp(prefix=f"vf_{prop}_", suffix=".json", dir="/dev/shm" if os.path.isdir("/dev/shm") else None)
    os.close(fd)
    fd, sp = tempfile.mkstemp(prefix=f"vf_{prop}_spec_", suffix=".json", dir=os.path.dirname(out))
    with os.fdopen(fd, "w") as f:
        json.dump(spec, f)
    t0 = time.time()
    try:
        try:
            p = subprocess.run(
                [PY, "-B", "-m", "vf.core.worker", prop, sp, out],
                cwd=ROOT, timeout=timeout, capture_output=True, text=True,
            )
        except subprocess.TimeoutExpired:
            return {"inconclusive": [f"shard {spec.get('shard')} wall-clock watchdog ({timeout}s) fired"], "_wall": time.time() - t0}
        try:
            with open(out) as f:
                res = json.load(f)
        except Exception:
            return {"inconclusive": [f"shard {spec.get('shard')} died rc={p.returncode}: {(p.stderr or '')[-1500:]}"], "_wall": time.time() - t0}
        res["_wall"] = time.time() - t0
        return res
    finally:
        for x in (out, sp):
            try:
                os.unlink(x)
            except OSError:
                pass


def merge(results):
    m = {"evaluations": 0, "nontrivial": 0, "distinct": set(), "distinct_count_disjoint": 0, "oracle": {}, "violations": [], "samples": [],
         "reach": {}, "inconclusive": [], "extra": {}, "vcounts": {}}
    for r in results:
        m["evaluations"] += r.get("evaluations", 0)
        m["distinct"].update(r.get("distinct", []))
        m["distinct_count_disjoint"] += r.get("distinct_count", 0)
        for k, v in r.get("oracle", {}).items():
            m["oracle"][k] = m["oracle"].get(k, 0) + v
        m["violations"].extend(r.get("violations", []))
        for k, v in r.get("violation_counts", {}).items():
            m["vcounts"][k] = m["vcounts"].get(k, 0) + v
        for s in r.get("samples", []):
            if len(m["samples"]) < 12:
                m["samples"].append(s)
        for k, v in r.get("reach", {}).items():
            cur = m["reach"].setdefault(k, {"hit": set(), "total": v["total"]})
            cur["hit"].update(v["hit"])
        m["inconclusive"].extend(r.get("inconclusive", []))
        for k, v in r.get("extra", {}).items():
            if isinstance(v, (int, float)):
                m["extra"][k] = m["extra"].get(k, 0) + v
            elif isinstance(v, list):
                m["extra"].setdefault(k, [])
                for x in v:
                    if len(m["extra"][k]) < 40 and x not in m["extra"][k]:
                        m["extra"][k].append(x)
            elif isinstance(v, dict):
                d = m["extra"].setdefault(k, {})
                for kk, vv in v.items():
                    if isinstance(vv, (int, float)):
                        d[kk] = d.get(kk, 0) + vv
                    else:
                        d.setdefault(kk, vv)
            else:
                m["extra"].setdefault(k, v)
    return m


def sweep_stale_scratch(max_age_s=6 * 3600):
    """stale scratch left in /dev/shm by shards that were killed by a watchdog (checks clean up after themselves otherwise)"""
    import shutil
    base = "/dev/shm"
    if not os.path.isdir(base):
        return
    now = time.time()
    for n in os.listdir(base):
        if n.startswith(("vf_c0", "vf_C", "vf_seed_", "vf_mut_", "vf_ev_")):
            p = os.path.join(base, n)
            try:
                if now - os.path.getmtime(p) > max_age_s:
                    shutil.rmtree(p, ignore_errors=True) if os.path.isdir(p) else os.unlink(p)
            except OSError:
                pass


def main(argv):
    sweep_stale_scratch()
    if len(argv) < 2:
        print("usage: check CNN quick|thorough | check CNN --replay FILE")
        return 2
    prop = argv[0].upper()
    mod = importlib.import_module("vf.checks." + prop.lower())
    seed = int(os.environ.get("VERIF_SEED", "0") or 0)
    t0 = time.time()
    if argv[1] == "--replay":
        with open(argv[2]) as f:
            w = json.load(f)
        spec = w["spec"]
        spec["only_case"] = w.get("case")
        spec["replay"] = True
        res = run_worker(prop, spec, 3600)
        vs = [v for v in res.get("violations", []) if v["key"] == w["key"]] or res.get("violations", [])
        print(json.dumps({"violations": vs[:3], "inconclusive": res.get("inconclusive", [])}, indent=1, default=str)[:20000])
        if vs:
            print(f"VIOLATION property={prop} replay={argv[2]}")
            return 1
        return 0 if not res.get("inconclusive") else 2

    tier = argv[1]
    if tier not in ("quick", "thorough"):
        tier = os.environ.get("VERIF_TIER", "quick")
    nshards_env = os.environ.get("VF_SHARDS")
    specs = mod.plan(tier, seed)
    for i, s in enumerate(specs):
        s.setdefault("shard", i)
        s["tier"] = tier
        s["seed"] = seed
    ncpu = int(nshards_env or os.cpu_count() or 4)
    timeout = getattr(mod, "SHARD_TIMEOUT", {}).get(tier, 900 if tier == "quick" else 7200)
    with cf.ThreadPoolExecutor(max_workers=min(ncpu, max(1, len(specs)))) as ex:
        results = list(ex.map(lambda s: run_worker(prop, s, timeout), specs))
    m = merge(results)

    # required oracles / mechanisms must have been reached, otherwise inconclusive
    for name in getattr(mod, "REQUIRED_ORACLES", []):
        if m["oracle"].get(name, 0) <= 0:
            m["inconclusive"].append(f"deciding oracle '{name}' was evaluated 0 times")
    # workload ingredients the check's reach depends on ("name" or "map:key" in the merged counters): a generator that silently
    # stops producing one (e.g. because the repository changed under it) must not pass as "held"
    for name in getattr(mod, "REQUIRED_COUNTERS", []):
        if ":" in name:
            a, b = name.split(":", 1)
            val = (m["extra"].get(a) or {}).get(b, 0) if isinstance(m["extra"].get(a), dict) else 0
        else:
            val = m["extra"].get(name, 0)
        if not val:
            m["inconclusive"].append(f"workload ingredient '{name}' was observed 0 times")
    if m["evaluations"] <= 0:
        m["inconclusive"].append("no case was evaluated")

    known = {(k["property"], k["key"]): k for k in load_known()}
    by_key = {}
    for v in m["violations"]:
        by_key.setdefault(v["key"], []).append(v)
    unknown, known_hits = [], {}
    os.makedirs(os.path.join(ROOT, "replays", prop), exist_ok=True)
    lines = []
    for key in sorted(by_key):
        vs = by_key[key]
        ent = known.get((prop, key))
        if ent is not None and ent.get("status") == "known":
            known_hits[key] = m["vcounts"].get(key, len(vs))
            lines.append(f"KNOWN-FINDING: property={prop} key={key} hits={known_hits[key]} :: {ent['what']}")
            continue
        v = vs[0]
        h = hashlib.sha1(key.encode()).hexdigest()[:10]
        path = os.path.join("replays", prop, f"{tier}-s{seed}-{h}.json")
        with open(os.path.join(ROOT, path), "w") as f:
            json.dump({"property": prop, "key": key, "what": v.get("what"), "spec": v.get("spec"), "case": v.get("case"),
                       "witness": v.get("witness"), "count": m["vcounts"].get(key, len(vs))}, f, indent=1, default=str)
        unknown.append((key, path, v))
    wall = time.time() - t0

    distinct = len(m["distinct"]) + m["distinct_count_disjoint"]
    meta = mod.META
    cov = {
        "evaluations": m["evaluations"],
        "distinct_nontrivial": distinct,
        "rule": meta["rule"],
        "samples": m["samples"] or ["(no sample recorded)"],
        "oracle_evaluations": m["oracle"],
        "anchor_line_reach": {k: {"hit": len(v["hit"]), "total": v["total"]} for k, v in sorted(m["reach"].items())},
        "known_finding_hits": known_hits,
        "unlisted_violation_keys": [k for k, _, _ in unknown],
        "inconclusive": m["inconclusive"][:20],
        "shards": len(specs),
        "shard_wall_s": [round(r.get("_wall", 0), 1) for r in results],
    }
    if meta.get("exhaustive", {}).get(tier):
        cov["exhaustive"] = True
    cov.update(m["extra"])
    ev = {
        "property_id": prop, "tier": tier, "seed": seed, "level": meta["level"], "coverage": cov,
        "assumptions": meta.get("assumptions", []), "wall_s": round(wall, 2), "violations": len(unknown),
    }
    evdir = os.environ.get("VF_EVIDENCE_DIR") or os.path.join(ROOT, "evidence")     # scratch runs (seeded changes, mutants) write elsewhere
    os.makedirs(evdir, exist_ok=True)
    with open(os.path.join(evdir, f"{prop}.json"), "w") as f:
        json.dump(ev, f, indent=1, default=str)
        f.write("\n")

    for ln in lines:
        print(ln)
    print(f"{prop} {tier} seed={seed}: evaluations={m['evaluations']} distinct_nontrivial={distinct} "
          f"oracles={json.dumps(m['oracle'], sort_keys=True)} wall={wall:.1f}s")
    if unknown:
        for key, path, v in unknown:
            print(f"  violated: key={key} :: {str(v.get('what'))[:300]}")
            print(f"VIOLATION property={prop} replay={path}")
        return 1
    if m["inconclusive"]:
        for r in m["inconclusive"][:10]:
            print(f"INCONCLUSIVE property={prop} reason={r}")
        return 2
    return 0


if __name__ == "__main__":
    sys.exit(main(sys.argv[1:]))
