"""Line reach of anchored functions via sys.monitoring (local LINE events, DISABLE after first hit)."""
import sys

TOOL = 3


class Reach:
    def __init__(self, funcs):
        """funcs: dict name -> function object (python function or coroutine function)"""
        self.codes = {}
        self.hit = {}
        self.total = {}
        for name, fn in funcs.items():
            fn = getattr(fn, "__func__", fn)
            fn = getattr(fn, "__wrapped__", fn)
            code = getattr(fn, "__code__", None)
            if code is None:
                continue
            self.codes[code] = name
            self.hit[name] = set()
            first = code.co_firstlineno
            self.total[name] = len({ln for _, _, ln in code.co_lines() if ln is not None and ln != first})
        self.on = False

    def start(self):
        mon = sys.monitoring
        try:
            mon.use_tool_id(TOOL, "vf-reach")
        except ValueError:
            pass
        mon.register_callback(TOOL, mon.events.LINE, self._line)
        for code in self.codes:
            mon.set_local_events(TOOL, code, mon.events.LINE)
        self.on = True
        return self

    def _line(self, code, line):
        name = self.codes.get(code)
        if name is not None and line != code.co_firstlineno:
            self.hit[name].add(line)
        return sys.monitoring.DISABLE

    def stop(self):
        if not self.on:
            return
        mon = sys.monitoring
        for code in self.codes:
            try:
                mon.set_local_events(TOOL, code, 0)
            except Exception:
                pass
        mon.register_callback(TOOL, mon.events.LINE, None)
        try:
            mon.free_tool_id(TOOL)
        except Exception:
            pass
        self.on = False

    def entered(self, name):
        return bool(self.hit.get(name))

    def report(self):
        return {n: {"hit": sorted(self.hit[n]), "total": self.total[n]} for n in self.hit}
