"""Import the code under test from the working tree ($VF_REPO, default /repo).

Being pure Python, "rebuild from the current working tree" is this import in a fresh
process.  We refuse to continue if `asyncfix` does not come from that directory.
"""
import os
import sys

REPO = os.path.realpath(os.environ.get("VF_REPO", "/repo"))


class NotFromTree(Exception):
    pass


def ensure():
    if sys.path[0] != REPO:
        sys.path.insert(0, REPO)
    import asyncfix  # noqa

    f = os.path.realpath(asyncfix.__file__)
    if not f.startswith(REPO + os.sep):
        raise NotFromTree(f"asyncfix imported from {f}, expected under {REPO}")
    return asyncfix
