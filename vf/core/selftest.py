"""setup_cmd: byte-compile nothing, fetch nothing; self-test the independent references."""
import sys


def main():
    from vf.ref import fixwire
    assert fixwire.selftest()
    from vf.core import repoimport
    repoimport.ensure()
    import importlib, os
    d = os.path.join(os.path.dirname(os.path.dirname(__file__)), "ref")
    for f in sorted(os.listdir(d)):
        if f.endswith(".py") and f != "__init__.py":
            m = importlib.import_module("vf.ref." + f[:-3])
            if hasattr(m, "selftest"):
                assert m.selftest(), f
    print("vf selftest ok")
    return 0


if __name__ == "__main__":
    sys.exit(main())
