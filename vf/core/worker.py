"""One shard in a fresh process:  python -m vf.core.worker CNN spec.json out.json"""
import importlib
import json
import logging
import sys
import traceback
import warnings


def main(argv):
    prop, specfile, outfile = argv
    with open(specfile) as f:
        spec = json.load(f)
    logging.disable(logging.CRITICAL)
    warnings.simplefilter("ignore")
    from vf.core import repoimport
    try:
        repoimport.ensure()
    except Exception as e:  # import of the tree failed: nothing can be decided
        res = {"inconclusive": [f"cannot import asyncfix from the tree: {type(e).__name__}: {e}"]}
        with open(outfile, "w") as f:
            json.dump(res, f)
        return 0
    from vf.core.acc import Acc
    acc = Acc(prop, spec)
    try:
        mod = importlib.import_module("vf.checks." + prop.lower())
        mod.run_shard(spec, acc)
    except BaseException as e:  # harness error (code-under-test errors are classified inside the checks)
        acc.inconclusive(f"shard {spec.get('shard')} harness exception {type(e).__name__}: {e} :: {traceback.format_exc()[-1800:]}")
    res = acc.result()
    with open(outfile, "w") as f:
        json.dump(res, f, default=str)
    return 0


if __name__ == "__main__":
    sys.exit(main(sys.argv[1:]))
