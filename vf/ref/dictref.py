"""Independent reader of a QuickFIX-style XML dictionary (ElementTree only, no asyncfix import).

Used ONLY to generate message instances and single faults whose validity is unambiguous; the verdict always comes from
the library.  A message is expanded into a tree of nodes with components inlined recursively:

  {"kind": "field", "tag", "name", "type", "enum": [..], "req": bool, "strict": bool}
  {"kind": "group", "tag", "name", "req", "strict", "members": [nodes]}

req    = the required flag written on the element itself
strict = req and every component on the way from the enclosing message / group is required too
         (required under both readings of "required inside an optional component")
"""
import xml.etree.ElementTree as ET


class Dict:
    def __init__(self, path_or_tree):
        tree = ET.parse(path_or_tree) if isinstance(path_or_tree, str) else path_or_tree
        root = tree.getroot()
        self.fields = {}        # name -> {"tag","name","type","enum"}
        self.by_tag = {}
        for f in root.find("fields"):
            d = {"tag": f.attrib["number"], "name": f.attrib["name"], "type": f.attrib["type"].upper(),
                 "enum": [v.attrib["enum"] for v in f if v.tag == "value"]}
            self.fields[d["name"]] = d
            self.by_tag[d["tag"]] = d
        self.components = {c.attrib["name"]: c for c in root.find("components")}
        self.header = self._expand(root.find("header"), True, ())
        tr = root.find("trailer")
        self.trailer = self._expand(tr, True, ()) if tr is not None else []
        self.messages = {}      # msgtype -> {"name","msgtype","members"}
        for m in root.find("messages"):
            self.messages[m.attrib["msgtype"]] = {"name": m.attrib["name"], "msgtype": m.attrib["msgtype"],
                                                 "members": self._expand(m, True, ())}
        self.header_tags = {n["tag"] for n in self.header}
        self.trailer_tags = {n["tag"] for n in self.trailer}

    def _expand(self, element, strict, stack):
        out = []
        for el in element:
            req = el.attrib.get("required", "N").upper() == "Y"
            if el.tag == "field":
                f = self.fields[el.attrib["name"]]
                out.append({"kind": "field", "tag": f["tag"], "name": f["name"], "type": f["type"], "enum": f["enum"],
                            "req": req, "strict": req and strict})
            elif el.tag == "group":
                f = self.fields[el.attrib["name"]]
                out.append({"kind": "group", "tag": f["tag"], "name": f["name"], "req": req, "strict": req and strict,
                            "members": self._expand(el, True, stack)})
            elif el.tag == "component":
                name = el.attrib["name"]
                if name in stack:
                    raise ValueError("component cycle " + name)
                out.extend(self._expand(self.components[name], strict and req, stack + (name,)))
        return out


def all_tags(members):
    s = set()
    for n in members:
        s.add(n["tag"])
        if n["kind"] == "group":
            s |= all_tags(n["members"])
    return s


def depth(members):
    d = 0
    for n in members:
        if n["kind"] == "group":
            d = max(d, 1 + depth(n["members"]))
    return d


def selftest():
    import io
    xml = """<fix><header><field name='BeginString' required='Y'/></header><trailer><field name='CheckSum' required='Y'/></trailer>
    <messages><message name='M' msgtype='M' msgcat='app'><field name='A' required='Y'/><component name='C' required='N'/>
      <group name='NoG' required='Y'><field name='B' required='Y'/><component name='C2' required='Y'/></group></message></messages>
    <components><component name='C'><field name='X' required='Y'/></component><component name='C2'><field name='Y' required='Y'/>
      <group name='NoH' required='N'><field name='Z' required='Y'/></group></component></components>
    <fields><field number='8' name='BeginString' type='STRING'/><field number='10' name='CheckSum' type='STRING'/>
      <field number='1' name='A' type='INT'/><field number='2' name='X' type='INT'/><field number='3' name='NoG' type='NUMINGROUP'/>
      <field number='4' name='B' type='CHAR'><value enum='1' description='ONE'/></field><field number='5' name='Y' type='INT'/>
      <field number='6' name='NoH' type='NUMINGROUP'/><field number='7' name='Z' type='INT'/></fields></fix>"""
    d = Dict(ET.parse(io.StringIO(xml)))
    m = d.messages["M"]["members"]
    assert [n["tag"] for n in m] == ["1", "2", "3"]
    assert m[1]["req"] and not m[1]["strict"]            # X: required inside an optional component
    g = m[2]
    assert g["kind"] == "group" and g["strict"] and [n["tag"] for n in g["members"]] == ["4", "5", "6"]
    assert g["members"][1]["strict"] and g["members"][0]["enum"] == ["1"]
    assert depth(m) == 2 and all_tags(m) == {"1", "2", "3", "4", "5", "6", "7"}
    return True


if __name__ == "__main__":
    print(selftest())
