"""Independent FIX tag=value framer: build frames, strictly parse frames.  No asyncfix import.

A frame is   8=<BeginString> SOH 9=<digits> SOH 35=... SOH ... SOH 10=ddd SOH
BodyLength = number of bytes after the SOH that ends the 9= field, up to and including the
SOH before "10=".  CheckSum = sum of all bytes before "10=" modulo 256, three digits.
"""
SOH = b"\x01"


class FrameError(Exception):
    pass


def _b(x) -> bytes:
    if isinstance(x, bytes):
        return x
    return str(x).encode("latin-1")


def build(fields, beginstring=b"FIX.4.4", body_length=None, checksum=None) -> bytes:
    """fields: ordered list of (tag, value) starting with 35.  Returns frame bytes.

    body_length / checksum override the computed values (to build deliberately bad frames)."""
    body = b"".join(_b(t) + b"=" + _b(v) + SOH for t, v in fields)
    bl = len(body) if body_length is None else body_length
    head = b"8=" + _b(beginstring) + SOH + b"9=" + _b(bl) + SOH
    pre = head + body
    ck = sum(pre) % 256 if checksum is None else checksum
    ckb = (b"%03d" % ck) if isinstance(ck, int) else _b(ck)
    return pre + b"10=" + ckb + SOH


def msg(msgtype, seq, sender, target, body=(), sending_time="20240101-00:00:00.000", extra_header=()):
    """Conventional header order 35,49,56,34,52 then body."""
    f = [(35, msgtype), (49, sender), (56, target), (34, seq), (52, sending_time)]
    f += list(extra_header)
    f += list(body)
    return build(f)


def parse(frame: bytes, beginstring=b"FIX.4.4", allow_empty=True, strict_tags=True):
    """Strict parse of exactly one frame -> list[(tag:str, value:str(latin-1))].  Raises FrameError."""
    if not isinstance(frame, (bytes, bytearray)):
        raise FrameError("not bytes")
    frame = bytes(frame)
    if not frame.endswith(SOH):
        raise FrameError("no terminating SOH")
    parts = frame[:-1].split(SOH)
    if len(parts) < 4:
        raise FrameError("fewer than 4 fields")
    fields = []
    for p in parts:
        if b"=" not in p:
            raise FrameError(f"field without '=': {p[:20]!r}")
        t, v = p.split(b"=", 1)
        if strict_tags and (not t.isdigit() or not t.isascii() or t.startswith(b"0")):
            raise FrameError(f"bad tag {t[:12]!r}")
        t = t.strip() if not strict_tags else t
        if v == b"" and not allow_empty:
            raise FrameError(f"empty value for tag {t!r}")
        fields.append((t, v))
    if fields[0] != (b"8", beginstring):
        raise FrameError(f"first field is not 8={beginstring!r}: {fields[0]!r}")
    if fields[1][0] != b"9":
        raise FrameError("second field is not BodyLength")
    if fields[2][0] != b"35":
        raise FrameError("third field is not MsgType")
    if fields[-1][0] != b"10":
        raise FrameError("last field is not CheckSum")
    bl = fields[1][1]
    if not (bl.isdigit() and bl.isascii()):
        raise FrameError(f"BodyLength not digits: {bl!r}")
    ck = fields[-1][1]
    if not (len(ck) == 3 and ck.isdigit() and ck.isascii()):
        raise FrameError(f"CheckSum not three digits: {ck!r}")
    head_len = len(b"8=") + len(fields[0][1]) + 1 + len(b"9=") + len(bl) + 1
    trailer_len = len(b"10=") + 3 + 1
    real_bl = len(frame) - head_len - trailer_len
    if int(bl) != real_bl:
        raise FrameError(f"BodyLength {int(bl)} != actual {real_bl}")
    real_ck = sum(frame[: len(frame) - trailer_len]) % 256
    if int(ck) != real_ck:
        raise FrameError(f"CheckSum {ck!r} != actual {real_ck:03d}")
    for t, _ in fields[3:-1]:
        if t in (b"8", b"9", b"10"):
            raise FrameError(f"framing tag {t!r} inside body")
    return [(t.decode(), v.decode("latin-1")) for t, v in fields]


def split_stream(data: bytes, beginstring=b"FIX.4.4"):
    """Split a byte string that is a pure concatenation of strict frames.  Uses BodyLength only."""
    out = []
    i = 0
    n = len(data)
    while i < n:
        pre = b"8=" + beginstring + SOH + b"9="
        if not data.startswith(pre, i):
            raise FrameError(f"no frame start at offset {i}")
        j = data.index(SOH, i + len(pre))
        bl = data[i + len(pre): j]
        if not bl.isdigit():
            raise FrameError("BodyLength not digits")
        end = j + 1 + int(bl) + 7
        fr = data[i:end]
        parse(fr, beginstring)
        out.append(fr)
        i = end
    return out


def get(fields, tag, default=None):
    tag = str(tag)
    for t, v in fields:
        if t == tag:
            return v
    return default


def getall(fields, tag):
    tag = str(tag)
    return [v for t, v in fields if t == tag]


def show(b: bytes) -> str:
    return b.replace(SOH, b"|").decode("latin-1")


def selftest():
    f = msg("D", 3, "A", "B", [(11, "x=1"), (58, "hello")])
    p = parse(f)
    assert get(p, 11) == "x=1" and get(p, 34) == "3" and p[2] == ("35", "D")
    assert split_stream(f + f) == [f, f]
    # known-good literal frame from the FIX spec style (checksum computed by hand here)
    lit = b"8=FIX.4.4\x019=5\x0135=0\x0110=163\x01"
    assert sum(lit[:-7]) % 256 == 163
    assert parse(lit) == [("8", "FIX.4.4"), ("9", "5"), ("35", "0"), ("10", "163")]
    for bad in (f[:-1], f[:-4] + b"000\x01" if not f.endswith(b"000\x01") else f[:-4] + b"001\x01", f.replace(b"9=", b"9=1", 1),
                f.replace(b"\x0110=", b"\x0110= ", 1), b"9=5\x01" + f):
        try:
            parse(bad)
        except FrameError:
            continue
        raise AssertionError(f"accepted bad frame {bad!r}")
    return True


if __name__ == "__main__":
    print(selftest())
