"""FIX 4.4 datatype lexical spaces (Vol. 1 "Data types") as three-zone oracles.  No asyncfix import.

zone(type, s) -> "accept" | "reject" | "u"   (u = unspecified: never judged)
"""
import calendar
import re

SOH = "\x01"
_INT = re.compile(r"-?[0-9]+\Z")
_FLOAT = re.compile(r"-?[0-9]+(\.[0-9]*)?\Z")
_FLOAT_U = re.compile(r"-?\.[0-9]+\Z")
_DIGITS = re.compile(r"[0-9]+\Z")
FLOATS = {"FLOAT", "QTY", "PRICE", "PRICEOFFSET", "AMT", "PERCENTAGE"}
CODES = {"COUNTRY": 2, "CURRENCY": 3, "EXCHANGE": 4}


def _date_ok(y, m, d):
    if y < 1:
        return None  # year 0000: unspecified (FIX allows 0000-9999, python has no year 0)
    if not (1 <= m <= 12):
        return False
    return 1 <= d <= calendar.monthrange(y, m)[1]


def _date_zone(s):
    if not re.match(r"[0-9]{8}\Z", s):
        return "reject"
    r = _date_ok(int(s[:4]), int(s[4:6]), int(s[6:8]))
    return "u" if r is None else ("accept" if r else "reject")


def _time_zone(s):
    m = re.match(r"([0-9]{2}):([0-9]{2}):([0-9]{2})(\.[0-9]+)?\Z", s)
    if not m:
        return "reject"
    hh, mm, ss = int(m.group(1)), int(m.group(2)), int(m.group(3))
    if hh > 23 or mm > 59 or ss > 60:
        return "reject"      # FIX 4.4: SS = 00-60
    if ss == 60:
        return "u"    # leap second: whether it is valid depends on the date
    if m.group(4) is not None and len(m.group(4)) != 4:
        return "u"    # FIX 4.4: milliseconds (3 digits); other precisions unspecified here
    return "accept"


def _combine(*zs):
    if "reject" in zs:
        return "reject"
    if "u" in zs:
        return "u"
    return "accept"


def zone(t, s):
    t = t.upper()
    if s == "":
        return "reject"   # a FIX field value is never empty: outside every lexical space (rejected with the message error since repo fix 8d5ee8a)
    if t in ("DATA", "LENGTH"):
        return "u"
    if SOH in s:
        return "reject"
    if t == "INT":
        return "accept" if _INT.match(s) else "reject"
    if t in FLOATS:
        if _FLOAT.match(s):
            return "accept"
        if _FLOAT_U.match(s):
            return "u"
        return "reject"
    if t in ("SEQNUM", "NUMINGROUP"):
        if _DIGITS.match(s):
            return "accept" if int(s) > 0 else "reject"
        return "reject"
    if t == "DAYOFMONTH":
        if _DIGITS.match(s):
            if len(s) > 2:
                return "u" if 1 <= int(s) <= 31 else "reject"   # 007: leading zeros beyond two digits unspecified
            return "accept" if 1 <= int(s) <= 31 else "reject"
        return "reject"
    if t == "BOOLEAN":
        return "accept" if s in ("Y", "N") else "reject"
    if t == "CHAR":
        if len(s) != 1:
            return "reject"
        if s == "=":
            return "u"
        return "accept" if 0x20 <= ord(s) < 0x7F else "u"
    if t in ("STRING", "MULTIPLEVALUESTRING", "MULTIPLESTRINGVALUE"):
        if "=" in s:
            return "u"
        return "accept" if all(0x20 <= ord(c) < 0x7F for c in s) else "u"
    if t in CODES:
        n = CODES[t]
        if len(s) > n:
            return "reject"
        if not all(c.isascii() and c.isalnum() for c in s):
            return "reject"
        if len(s) < n:
            return "u"
        return "accept" if s.isupper() and s.isalpha() else "u"
    if t in ("LOCALMKTDATE", "UTCDATEONLY"):
        return _date_zone(s)
    if t == "UTCTIMEONLY":
        return _time_zone(s)
    if t == "UTCTIMESTAMP":
        if len(s) < 10 or s[8] != "-":
            return "reject"
        return _combine(_date_zone(s[:8]), _time_zone(s[9:]))
    if t == "MONTHYEAR":
        if re.match(r"[0-9]{6}\Z", s):
            r = _date_ok(int(s[:4]), int(s[4:6]), 1)
            return "u" if r is None else ("accept" if r else "reject")
        if re.match(r"[0-9]{6}w[1-5]\Z", s):
            r = _date_ok(int(s[:4]), int(s[4:6]), 1)
            return "u" if r is None else ("accept" if r else "reject")
        if re.match(r"[0-9]{8}\Z", s):
            return _date_zone(s)
        return "reject"
    return "u"


def selftest():
    assert zone("INT", "-12") == "accept" and zone("INT", "1_0") == "reject" and zone("INT", "+5") == "reject" and zone("INT", "007") == "accept"
    assert zone("PRICE", "23.") == "accept" and zone("PRICE", ".5") == "u" and zone("PRICE", "1e5") == "reject" and zone("QTY", "nan") == "reject"
    assert zone("SEQNUM", "0") == "reject" and zone("SEQNUM", "12") == "accept"
    assert zone("UTCTIMESTAMP", "20230101-01:02:03") == "accept" and zone("UTCTIMESTAMP", "20230101-1:2:3") == "reject"
    assert zone("UTCTIMESTAMP", "20230229-01:02:03") == "reject" and zone("UTCTIMESTAMP", "20240229-01:02:03.123") == "accept"
    assert zone("UTCTIMESTAMP", "20240229-01:02:03.123456") == "u"
    assert zone("MONTHYEAR", "202301w6") == "reject" and zone("MONTHYEAR", "202301w5") == "accept" and zone("MONTHYEAR", "2023011") == "reject"
    assert zone("CURRENCY", "USD") == "accept" and zone("CURRENCY", "US_") == "reject" and zone("CURRENCY", "USDX") == "reject" and zone("CURRENCY", "US") == "u"
    assert zone("BOOLEAN", "y") == "reject" and zone("CHAR", "ab") == "reject" and zone("DAYOFMONTH", "32") == "reject"
    return True
