"""Independent order-lifecycle reference: FIX 4.4 order state change matrix cells (for the report kinds the
library models) and, further down, a small exchange simulator used by C17/C20.  No asyncfix import here.

Status / ExecType codes are the FIX values ("0" New, "1" Partially filled, "2" Filled, "4" Canceled, "6" Pending
Cancel, "8" Rejected, "9" Suspended, "A" Pending New, "C" Expired, "E" Pending Replace, "Z" = the library's
internal 'created'; ExecType "F" Trade, "5" Replaced, "D" Restated, "I" Order Status).
"""

# (current status, exec type, reported status) taken from FIX 4.4 Vol.4 Appendix D matrices A-D.
MATRIX = set()


def _add(cur, cells):
    for ex, rep in cells:
        MATRIX.add((cur, ex, rep))


# A just-created order
_add("Z", [("A", "A"), ("8", "8")])
# Pending new: ack, reject, immediate fills, cancel, suspend
_add("A", [("0", "0"), ("8", "8"), ("F", "1"), ("F", "2"), ("4", "4"), ("9", "9")])
# New (acknowledged)
_add("0", [("F", "1"), ("F", "2"), ("4", "4"), ("C", "C"), ("6", "6"), ("E", "E"), ("9", "9"), ("I", "0"), ("D", "0"), ("5", "0")])
# Partially filled
_add("1", [("F", "1"), ("F", "2"), ("4", "4"), ("C", "C"), ("6", "6"), ("E", "E"), ("9", "9"), ("I", "1"), ("D", "1")])
# Stopped (a guaranteed order, matrices D: "order stopped", then filled / cancelled / expired like an acknowledged one)
_add("0", [("7", "7")])
_add("1", [("7", "7")])
_add("7", [("F", "1"), ("F", "2"), ("4", "4"), ("C", "C"), ("7", "7"), ("I", "7")])
# Suspended -> released
_add("9", [("0", "0"), ("D", "0"), ("D", "1"), ("4", "4"), ("9", "9")])
# Pending cancel: the cancel, status precedence during fills, still pending
_add("6", [("4", "4"), ("6", "6"), ("F", "6"), ("I", "6")])
# Pending replace: replaced (new / partially / filled by the new quantity), still pending, fills under precedence
_add("E", [("5", "0"), ("5", "1"), ("5", "2"), ("E", "E"), ("F", "E"), ("I", "E")])


def matrix_allows(cur, exec_type, reported):
    return (cur, exec_type, reported) in MATRIX


def selftest():
    assert matrix_allows("A", "0", "0") and not matrix_allows("2", "F", "1")
    assert len(MATRIX) > 40
    return True


# ----------------------------------------------------------------------------------------------------------------
# Exchange simulator (C17, C20).  Follows the FIX 4.4 order state change matrices for exactly the report kinds the
# property lists.  Pure data in / pure data out: requests and reports are dicts {tag(int): value}; no asyncfix import.
FINISHED = ("2", "4", "8", "C")


class Exchange:
    """One order at the exchange.  `step(action)` applies one enabled action and returns the reports it emits."""

    def __init__(self):
        self.status = None          # None (nothing received) | "A" | "0" | "1" | "2" | "4" | "8" | "9" | "C"
        self.qty = self.price = None
        self.cum = 0.0
        self.leaves = 0.0
        self.live_id = None
        self.side = self.symbol = None
        self.order_id = "OID1"
        self.exec_n = 0
        self.requests = []          # FIFO of request dicts not yet looked at
        self.pending = None         # request being worked (acknowledged as pending): dict
        self.fills = []             # (exec id, quantity) of the trades still standing
        self.anomalies = []         # requests that referred to a wrong OrigClOrdID / reused a ClOrdID
        self.seen_ids = set()

    def key(self):
        return (self.status, self.qty, self.price, self.cum, self.leaves, self.live_id, self.exec_n, tuple(self.fills),
                tuple(tuple(sorted(r.items())) for r in self.requests), None if self.pending is None else tuple(sorted(self.pending.items())))

    # -- reports
    def _er(self, exec_type, ord_status, clord=None, orig=None, last_qty=None):
        self.exec_n += 1
        r = {35: "8", 37: self.order_id, 17: f"E{self.exec_n}", 150: exec_type, 39: ord_status, 11: clord or self.live_id,
             54: self.side, 55: self.symbol, 14: self.cum, 151: self.leaves, 6: 0.0 if not self.cum else self.price, 38: self.qty, 44: self.price}
        if orig:
            r[41] = orig
        if last_qty is not None:
            r[32] = last_qty
            r[31] = self.price
        return r

    def _rej(self, req, ord_status):
        return {35: "9", 37: self.order_id if self.status is not None else "NONE", 11: req[11], 41: req[41], 39: ord_status,
                434: "1" if req[35] == "F" else "2"}

    def reported(self):
        """OrdStatus to put on a report now (precedence: a pending cancel / replace outranks the working status)"""
        if self.pending is not None:
            return "6" if self.pending[35] == "F" else "E"
        return self.status

    # -- enabled actions
    def actions(self):
        a = []
        if self.requests:
            r = self.requests[0]
            if r[35] == "D":
                a += ["req:pending-new", "req:ack", "req:reject"]
            elif self.pending is not None:
                a += ["req:reject"]                    # a second request while one is being worked: rejected
            elif self.status in FINISHED or self.status is None or (r[35] == "G" and self.status == "9") or r[41] != self.live_id or self.status == "A":
                a += ["req:reject"]
            else:
                a += ["req:pending", "req:accept", "req:reject"]
        if self.status == "A":
            a += ["ack", "reject"]
        if self.pending is not None:
            a += ["pending:accept", "pending:reject"]
        if self.status in ("0", "1"):
            a += ["fill:partial", "fill:full"]
            if self.pending is None:          # what status word an expiry / unsolicited cancel carries while a request is pending is not pinned down by the matrices
                a += ["suspend", "expire", "cancel:unsolicited"]
        if self.status == "1" and self.pending is None and len(self.fills) >= 2:
            # Trade Cancel (matrices, section E): the last trade is taken back.  Only while another trade stands: the order stays
            # partially filled; which status word follows the bust of the ONLY trade is not among the report kinds the property lists
            a += ["bust"]
        if self.status == "4" and self.pending is None and self.fills and not self.requests:
            # matrix D: an execution of a cancelled order is busted afterwards (the order stays cancelled, its CumQty goes down)
            a += ["bust:after-cancel"]
        if self.status == "9" and self.pending is None:
            a += ["resume", "cancel:unsolicited"]
        return a

    def submit(self, req):
        self.requests.append(dict(req))

    def step(self, action):
        out = []
        if action.startswith("req:"):
            r = self.requests.pop(0)
            if r[11] in self.seen_ids:
                self.anomalies.append(("clordid-reused", r[11]))
            self.seen_ids.add(r[11])
            if r[35] == "D":
                self.qty, self.price, self.side, self.symbol = float(r[38]), float(r[44]), r[54], r[55]
                self.live_id = r[11]
                self.cum, self.leaves = 0.0, 0.0
                if action == "req:pending-new":
                    self.status = "A"
                    out.append(self._er("A", "A"))
                elif action == "req:ack":
                    self.status, self.leaves = "0", self.qty
                    out.append(self._er("0", "0"))
                else:
                    self.status = "8"
                    out.append(self._er("8", "8"))
                return out
            if self.status is not None and r.get(41) != self.live_id:
                self.anomalies.append(("wrong-origclordid", r.get(41), self.live_id))
            if action == "req:reject":
                st = self.status if self.status is not None else "8"
                if self.pending is not None:
                    st = self.reported()
                out.append(self._rej(r, st))
            elif action == "req:pending":
                self.pending = r
                out.append(self._er("6" if r[35] == "F" else "E", self.reported(), clord=r[11], orig=self.live_id))
            else:
                self.pending = r
                out += self._accept()
            return out
        if action == "ack":
            self.status, self.leaves = "0", self.qty
            return [self._er("0", "0")]
        if action == "reject":
            self.status, self.leaves = "8", 0.0
            return [self._er("8", "8")]
        if action == "pending:accept":
            return self._accept()
        if action == "pending:reject":
            r, self.pending = self.pending, None
            return [self._rej(r, self.status)]
        if action in ("fill:partial", "fill:full"):
            q = self.leaves if action == "fill:full" else (self.leaves / 2 if self.leaves > 1 else self.leaves)
            if q <= 0:
                return []
            self.cum += q
            self.fills.append((f"E{self.exec_n + 1}", q))
            self.leaves = self.qty - self.cum
            if self.leaves <= 1e-9:
                self.leaves = 0.0
            self.status = "2" if self.leaves == 0 else "1"
            out.append(self._er("F", self.reported(), last_qty=q))
            if self.status == "2" and self.pending is not None:
                r, self.pending = self.pending, None
                out.append(self._rej(r, "2"))          # too late to cancel / replace
            return out
        if action in ("expire", "cancel:unsolicited"):
            code = "C" if action == "expire" else "4"
            r, self.pending = self.pending, None
            self.status, self.leaves = code, 0.0
            out.append(self._er(code, code))
            if r is not None:
                out.append(self._rej(r, code))
            return out
        if action == "bust:after-cancel":
            ref, q = self.fills.pop()
            self.cum = max(0.0, self.cum - q)
            if self.cum <= 1e-9:
                self.cum = 0.0
            r = self._er("H", "4")
            r[19] = ref
            return [r]
        if action == "bust":
            ref, q = self.fills.pop()
            self.cum = max(0.0, self.cum - q)
            if self.cum <= 1e-9:
                self.cum = 0.0
            self.leaves = self.qty - self.cum
            self.status = "1" if self.cum > 0 else "0"
            r = self._er("H", self.status)
            r[19] = ref
            return [r]
        if action == "suspend":
            self.status = "9"
            return [self._er("9", "9")]
        if action == "resume":
            self.status = "1" if self.cum > 0 else "0"
            return [self._er("D", self.status)]
        raise AssertionError(action)

    def _accept(self):
        r, self.pending = self.pending, None
        if self.status in FINISHED:
            return [self._rej(r, self.status)]
        if r[35] == "F":
            orig = self.live_id
            self.status, self.leaves = "4", 0.0
            return [self._er("4", "4", clord=r[11], orig=orig)]
        q, p = float(r[38]), float(r[44])
        if q < self.cum:
            return [self._rej(r, self.status)]
        orig = self.live_id
        self.qty, self.price = q, p
        self.leaves = self.qty - self.cum
        self.status = "2" if self.leaves == 0 else ("1" if self.cum > 0 else "0")
        self.live_id = r[11]
        return [self._er("5", self.status, clord=r[11], orig=orig)]


def _selftest_exchange():
    x = Exchange()
    x.submit({35: "D", 11: "r--1", 38: 10, 44: 100.0, 54: "1", 55: "T"})
    assert x.step("req:ack")[0][39] == "0" and x.leaves == 10
    assert x.step("fill:partial")[0][14] == 5.0 and x.status == "1"
    x.submit({35: "F", 11: "r--2", 41: "r--1", 38: 10})
    r = x.step("req:pending")[0]
    assert r[39] == "6" and r[11] == "r--2" and r[41] == "r--1"
    f = x.step("fill:full")
    assert f[0][39] == "6" and f[0][151] == 0.0 and f[1][35] == "9" and f[1][39] == "2" and x.pending is None
    assert "fill:partial" not in x.actions()
    y = Exchange()
    y.submit({35: "D", 11: "r--1", 38: 8, 44: 1.0, 54: "1", 55: "T"})
    y.step("req:ack"); y.step("fill:partial"); y.step("fill:partial")
    assert y.cum == 6.0 and "bust" in y.actions()
    b = y.step("bust")[0]
    assert b[150] == "H" and b[14] == 4.0 and b[151] == 4.0 and b[39] == "1" and b[19] == "E3"
    assert "bust" not in y.actions()
    return True


_old_selftest = selftest


def selftest():
    return _old_selftest() and _selftest_exchange()
