"""Independent order-lifecycle reference: FIX 4.4 order state change matrix cells (for the report kinds the
library models) and, further down, a small exchange simulator used by C17/C20.  No asyncfix import here.

Status / ExecType codes are the FIX values ("0" New, "1" Partially filled, "2" Filled, "4" Canceled, "6" Pending
Cancel, "8" Rejected, "9" Suspended, "A" Pending New, "C" Expired, "E" Pending Replace, "Z" = the library's
internal 'created'; ExecType "F" Trade, "5" Replaced, "D" Restated, "I" Order Status).
"""

# (current status, exec type, reported status) taken from FIX 4.4 Vol.4 Appendix D matrices A-D.
MATRIX = set()


def _add(cur, cells):
    for ex, rep in cells:
        MATRIX.add((cur, ex, rep))


# A just-created order
_add("Z", [("A", "A"), ("8", "8")])
# Pending new: ack, reject, immediate fills, cancel, suspend
_add("A", [("0", "0"), ("8", "8"), ("F", "1"), ("F", "2"), ("4", "4"), ("9", "9")])
# New (acknowledged)
_add("0", [("F", "1"), ("F", "2"), ("4", "4"), ("C", "C"), ("6", "6"), ("E", "E"), ("9", "9"), ("I", "0"), ("D", "0"), ("5", "0")])
# Partially filled
_add("1", [("F", "1"), ("F", "2"), ("4", "4"), ("C", "C"), ("6", "6"), ("E", "E"), ("9", "9"), ("I", "1"), ("D", "1")])
# Suspended -> released
_add("9", [("0", "0"), ("D", "0"), ("D", "1"), ("4", "4"), ("9", "9")])
# Pending cancel: the cancel, status precedence during fills, still pending
_add("6", [("4", "4"), ("6", "6"), ("F", "6"), ("I", "6")])
# Pending replace: replaced (new / partially / filled by the new quantity), still pending, fills under precedence
_add("E", [("5", "0"), ("5", "1"), ("5", "2"), ("E", "E"), ("F", "E"), ("I", "E")])


def matrix_allows(cur, exec_type, reported):
    return (cur, exec_type, reported) in MATRIX


def selftest():
    assert matrix_allows("A", "0", "0") and not matrix_allows("2", "F", "1")
    assert len(MATRIX) > 40
    return True
