"""Crash / fault injection at SQL statement and commit boundaries.

`asyncfix.journaler.sqlite3` (a module attribute) is replaced from the harness by a Shim whose
connect() returns proxies around the real connection and cursor.  Every execute() and commit()
is numbered as two boundaries (before / after).  At a chosen boundary index the controller
either ends the process with os._exit(77) (real process death; used in forked children, C08)
or raises Kill (a BaseException, so nothing in asyncfix swallows it; in-process endpoint
death, C09).  No source edit is involved.
"""
import os
import sqlite3 as _real


class Kill(BaseException):
    """In-process stand-in for the death of the endpoint's process."""


class Controller:
    def __init__(self):
        self.n = 0              # boundaries passed so far
        self.die_at = None      # boundary index at which to die
        self.mode = "exit"      # "exit" -> os._exit(77) | "raise" -> Kill
        self.log = []           # (index, label) when recording
        self.record = False
        self.armed = True
        self.dead = False

    def boundary(self, label):
        if not self.armed:
            return
        if self.dead and self.mode == "raise" and getattr(self, "sticky_death", True):
            # a dead process runs no exception handlers and no finally blocks: whatever the code under test tries to do with the
            # journal while the Kill unwinds through it (ROLLBACK in an `except BaseException`, a commit in a `finally`) does not happen
            raise Kill(f"already dead ({label})")
        i = self.n
        self.n += 1
        if self.record:
            self.log.append((i, label))
        if self.die_at is not None and i == self.die_at:
            if self.mode == "exit":
                os._exit(77)
            self.dead = True
            raise Kill(f"killed at boundary {i} ({label})")


class CursorProxy:
    def __init__(self, cur, ctl):
        self._c = cur
        self._ctl = ctl

    def execute(self, sql, *a):
        head = sql.strip().split(None, 2)
        label = " ".join(head[:2]) if head else "?"
        self._ctl.boundary("before " + label)
        r = self._c.execute(sql, *a)
        self._ctl.boundary("after " + label)
        return r

    def __iter__(self):
        return iter(self._c)

    def __next__(self):
        return next(self._c)

    def close(self):
        try:
            return self._c.close()
        except _real.ProgrammingError:     # connection already closed by the harness after a simulated death
            return None

    def __getattr__(self, n):
        return getattr(self._c, n)


class ConnProxy:
    def __init__(self, conn, ctl):
        self._conn = conn
        self._ctl = ctl

    def cursor(self):
        return CursorProxy(self._conn.cursor(), self._ctl)

    def commit(self):
        self._ctl.boundary("before commit")
        r = self._conn.commit()
        self._ctl.boundary("after commit")
        return r

    def rollback(self):
        self._ctl.boundary("before rollback")
        r = self._conn.rollback()
        self._ctl.boundary("after rollback")
        return r

    def execute(self, sql, *a):
        head = sql.strip().split(None, 2)
        label = " ".join(head[:2]) if head else "?"
        self._ctl.boundary("before " + label)
        r = self._conn.execute(sql, *a)
        self._ctl.boundary("after " + label)
        return r

    # `with conn:` - sqlite3's own protocol: commit on success, roll back on an exception (both are boundaries like the explicit calls)
    def __enter__(self):
        return self

    def __exit__(self, et, ev, tb):
        if et is None:
            self.commit()
        else:
            self._conn.rollback()
        return False

    def close(self):
        return self._conn.close()

    def __getattr__(self, n):
        return getattr(self._conn, n)


class Shim:
    """Stands in for the sqlite3 module inside asyncfix.journaler."""

    def __init__(self, ctl):
        self.ctl = ctl
        self.conns = []

    def connect(self, *a, **k):
        c = ConnProxy(_real.connect(*a, **k), self.ctl)
        self.conns.append(c)
        return c

    def __getattr__(self, n):
        return getattr(_real, n)


def install(ctl=None):
    """Returns (controller, shim, undo)."""
    import asyncfix.journaler as jm
    ctl = ctl or Controller()
    saved = jm.sqlite3
    shim = Shim(ctl)
    jm.sqlite3 = shim

    def undo():
        jm.sqlite3 = saved

    return ctl, shim, undo
