"""Recording endpoints (subclasses of the real connection classes) and a scripted counterparty."""
import asyncio
import sys

from vf.ref import fixwire
from vf.sim.net import MemReader, MemWriter, Tap, settle


class CountingLog:
    """Logger stand-in: counts records, keeps swallowed exceptions."""

    def __init__(self, name=""):
        self.name = name
        self.exceptions = []
        self.counts = {}

    def _c(self, k):
        self.counts[k] = self.counts.get(k, 0) + 1

    def debug(self, *a, **k):
        self._c("debug")

    def info(self, *a, **k):
        self._c("info")

    def warning(self, *a, **k):
        self._c("warning")

    def error(self, *a, **k):
        self._c("error")

    def critical(self, *a, **k):
        self._c("critical")

    SPIN_LIMIT = 20000       # exceptions logged by one endpoint in one case: a swallow-and-retry loop that never yields logs without end

    def exception(self, msg="", *a, **k):
        self._c("exception")
        et, ev, _ = sys.exc_info()
        if len(self.exceptions) < 50:
            self.exceptions.append(f"{et.__name__ if et else None}: {ev}"[:300])
        if self.counts["exception"] > self.SPIN_LIMIT:
            # a logical step budget, not a wall-clock one; BaseException so that nothing in asyncfix swallows it
            from vf.sim.net import SpinAbort
            raise SpinAbort(f"{self.name}: {self.counts['exception']} exceptions logged in one case (last: {self.exceptions[-1] if self.exceptions else ''}): "
                            "a loop that swallows an exception and retries without ever suspending")

    def isEnabledFor(self, *_):
        return False


def make_class(base):
    """A recording subclass of `base` (AsyncFIXConnection / AsyncFIXClient / AsyncFIXDummyServer)."""

    class Rec(base):
        def vf_init(self, name="ep", replay_filter=None):
            self.vf_name = name
            self.ev = []            # every callback in order
            self.rx = []            # (MsgSeqNum, ident, msgtype) of on_message
            self.disconnects = 0
            self.connects = 0
            self.vf_replay_filter = replay_filter
            self.vf_hooks = {}      # name -> async callable(*args) run inside the callback
            self.vf_on_connect_logon = None

        async def _hook(self, name, *a):
            h = self.vf_hooks.get(name)
            if h is not None:
                return await h(*a)

        async def on_message(self, msg):
            mt = msg.msg_type
            mt = getattr(mt, "value", mt)
            rec = (int(msg.get(34)), msg.get(11, None), mt)
            self.rx.append(rec)
            self.ev.append(("msg",) + rec)
            await self._hook("on_message", msg)

        async def on_connect(self):
            self.connects += 1
            self.ev.append(("connect",))
            await self._hook("on_connect")

        async def on_disconnect(self):
            self.disconnects += 1
            self.ev.append(("disconnect",))
            await self._hook("on_disconnect")

        async def on_logon(self, is_healthy):
            self.ev.append(("logon", bool(is_healthy)))
            await self._hook("on_logon", is_healthy)

        async def on_logout(self, msg):
            self.ev.append(("logout", msg.get(58, None)))
            await self._hook("on_logout", msg)

        async def on_state_change(self, st):
            self.ev.append(("state", st.name))
            await self._hook("on_state_change", st)

        async def should_replay(self, m):
            self.ev.append(("should_replay", m.get(34, None)))
            r = await self._hook("should_replay", m)
            if r is not None:
                return r
            if self.vf_replay_filter is not None:
                return self.vf_replay_filter(m)
            return True

    Rec.__name__ = "Rec" + base.__name__
    return Rec


_classes = {}


def rec_class(kind="generic"):
    from asyncfix.connection import AsyncFIXConnection
    from asyncfix.connection_client import AsyncFIXClient
    from asyncfix.connection_server import AsyncFIXDummyServer
    if kind not in _classes:
        _classes[kind] = make_class({"generic": AsyncFIXConnection, "client": AsyncFIXClient, "server": AsyncFIXDummyServer}[kind])
    return _classes[kind]


def new_endpoint(kind, sender, target, journaler, hb=30, name="ep", replay_filter=None):
    from asyncfix.protocol import FIXProtocol44
    cls = rec_class(kind)
    log = CountingLog(name)
    ep = cls(FIXProtocol44(), sender, target, journaler, "mem", 1, heartbeat_period=hb, logger=log)
    ep.vf_init(name, replay_filter)
    ep.vf_log = log
    return ep


def attach(ep, clock=None, role=None, sink=None):
    """Give `ep` in-memory streams the way the repository's own fixtures do, state NETWORK_CONN_ESTABLISHED."""
    from asyncfix.connection import ConnectionState
    ep.vf_reader = MemReader(ep.vf_name + ".reader")
    ep.vf_tap = getattr(ep, "vf_tap", None) or Tap(clock, ep.vf_name)
    ep.vf_writer = MemWriter(ep.vf_tap, sink, ep.vf_name + ".writer")
    ep.vf_writer.on_close = ep.vf_reader.feed_eof     # closing the transport ends the stream for its own reader too (connection_lost)
    ep._socket_reader = ep.vf_reader
    ep._socket_writer = ep.vf_writer
    ep._connection_state = ConnectionState.NETWORK_CONN_ESTABLISHED
    if role is not None:
        ep._connection_role = role
    return ep


def start_reader(ep):
    ep.vf_read_task = asyncio.get_running_loop().create_task(ep.socket_read_task())
    return ep.vf_read_task


def start_heartbeat(ep):
    ep.vf_hb_task = asyncio.get_running_loop().create_task(ep.heartbeat_timer_task())
    return ep.vf_hb_task


def stop_tasks(ep):
    for n in ("vf_read_task", "vf_hb_task", "_aio_task_socket_read", "_aio_task_heartbeat"):
        t = getattr(ep, n, None)
        if t is not None and not t.done():
            t.cancel()


def task_failure(ep):
    """BaseException that killed one of the endpoint's tasks (e.g. SpinAbort), or None."""
    for n in ("vf_read_task", "vf_hb_task", "_aio_task_socket_read", "_aio_task_heartbeat"):
        t = getattr(ep, n, None)
        if t is not None and t.done() and not t.cancelled():
            e = t.exception()
            if e is not None:
                return e
    return None


class Peer:
    """Scripted counterparty: builds frames with the independent framer; picks every header field itself."""

    def __init__(self, sender, target, clock=None):
        self.sender = sender
        self.target = target
        self.next_out = 1
        self.clock = clock
        self.sent = []

    def ts(self):
        return "20240101-00:00:00.000"

    def frame(self, mt, seq=None, body=(), possdup=False, sender=None, target=None, orig_time=True, header_extra=()):
        if seq is None:
            seq = self.next_out
            self.next_out += 1
        extra = list(header_extra)
        if possdup:
            extra += [(43, "Y")] + ([(122, "20231231-23:59:59.000")] if orig_time else [])
        f = fixwire.msg(mt, seq, self.sender if sender is None else sender, self.target if target is None else target,
                        body, self.ts(), extra)
        self.sent.append(f)
        return f

    def logon(self, seq=None, hb=30):
        return self.frame("A", seq, [(98, 0), (108, hb)])


def parse_tap(frames):
    """[(fields | FrameError)] for tapped frames, parsed with the independent parser."""
    out = []
    for b in frames:
        try:
            out.append(fixwire.parse(b))
        except fixwire.FrameError as e:
            out.append(e)
    return out
