"""Two real endpoints on a frame-granular in-memory link (C07, C09, C20).

One write() = one frame in flight.  The harness decides when each frame is delivered, when the link breaks (everything in
flight is lost; each end is told by EOF / ConnectionResetError / another OSError on read, or not at all) and when the
initiator reconnects.  Closing a writer puts an EOF marker in flight behind the frames already written, as TCP does.
Connections are installed the way the library installs them: AsyncFIXClient.connect() -> asyncio.open_connection
(replaced by World.open) and AsyncFIXDummyServer._handle_accept(reader, writer).
"""
import asyncio

from vf.sim.net import MemReader, MemWriter, Tap, settle

EOF = object()


class Link:
    def __init__(self, gen):
        self.gen = gen
        self.up = True
        self.q = {"I": [], "A": []}      # in flight towards I / towards A : bytes | EOF
        self.reader = {"I": MemReader(f"I.reader#{gen}"), "A": MemReader(f"A.reader#{gen}")}
        self.writer = {}
        self.drain_fault = {"I": None, "A": None}
        self.notified = {"I": False, "A": False}     # has this end's reader been told that the link is gone


class World:
    """I = initiator endpoint (sends to A), A = acceptor endpoint.  `taps` survive reconnects."""

    def __init__(self, clock, make_I, make_A):
        self.clock = clock
        self.make = {"I": make_I, "A": make_A}
        self.ep = {"I": make_I(), "A": make_A()}
        self.tap = {"I": Tap(clock, "I"), "A": Tap(clock, "A")}
        for s in "IA":
            self.ep[s].vf_tap = self.tap[s]
        self.link = None
        self.gen = 0
        self.connects = 0
        self.refuse = False
        self.log = []
        self.partial_frames_delivered = 0
        self.drain_once = {"I": None, "A": None}     # one-shot exception for the next drain() of that side
        self.drain_call = {"I": None, "A": None}     # async callable(side) awaited inside every successful drain() of that side
        self.writer_hook = None          # callable(side, writer): lets a check add fault points to a new writer
        self.last_delivered = {"I": None, "A": None}

    # ---- transport plumbing
    def _mk_writer(self, link, side):
        other = "A" if side == "I" else "I"

        def sink(data):
            if link.up:
                link.q[other].append(bytes(data))

        w = MemWriter(self.tap[side], sink, f"{side}.writer#{link.gen}")

        async def drain_hook():
            once = self.drain_once.get(side)
            if once is not None:            # the connection dies exactly under this drain()
                self.drain_once[side] = None
                raise once
            f = link.drain_fault[side]
            if f is not None and not link.up:
                raise f
            call = self.drain_call.get(side)
            if call is not None:            # a check's own suspension point: lets another task of that side run here
                await call(side)
        w.drain_hook = drain_hook

        def on_close():
            link.reader[side].feed_eof()      # connection_lost -> the closing side's own reader sees EOF
            link.notified[side] = True
            if link.up:
                link.q[other].append(EOF)
        w.on_close = on_close
        link.writer[side] = w
        if self.writer_hook is not None:
            self.writer_hook(side, w)
        return w

    async def open(self, host=None, port=None):
        """what asyncio.open_connection does for the client; also makes the acceptor accept"""
        if self.refuse:
            raise ConnectionRefusedError("vf: refused")
        A = self.ep["A"]
        if self.link is not None:
            # the single-connection dummy server needs the old connection gone first: the OS reports the dead peer.
            # open() may run inside the library's own reconnect timer (a task, not the driver): no settle() here, a
            # bounded number of plain yields lets the acceptor's reader task see the EOF and disconnect.
            old = self.link
            old.up = False
            if not old.notified["A"] and A._socket_reader is old.reader["A"]:
                old.notified["A"] = True
                old.reader["A"].feed_eof()
            for _ in range(200):
                if A._socket_reader is not old.reader["A"]:
                    break
                await asyncio.sleep(0)
        self.gen += 1
        self.connects += 1
        link = Link(self.gen)
        wi = self._mk_writer(link, "I")
        wa = self._mk_writer(link, "A")
        self.link = link
        A.vf_reader, A.vf_writer = link.reader["A"], wa
        await A._handle_accept(link.reader["A"], wa)
        I = self.ep["I"]
        I.vf_reader, I.vf_writer = link.reader["I"], wi
        return link.reader["I"], wi

    async def notify(self, side, kind):
        """tell one end that its (broken) connection is gone"""
        link = self.link
        if link is None or link.notified[side]:
            return
        ep = self.ep[side]
        if ep._socket_reader is not link.reader[side]:
            link.notified[side] = True
            return
        link.notified[side] = True
        r = link.reader[side]
        if kind == "eof":
            r.feed_eof()
        elif kind in ("reset", "pipe", "timeout", "oserror"):
            exc = {"reset": ConnectionResetError("connection reset by peer"), "pipe": BrokenPipeError("broken pipe"),
                   "timeout": TimeoutError("connection timed out"), "oserror": OSError(113, "No route to host")}[kind]
            r.set_exception(exc)
            wr = link.writer.get(side)
            if wr is not None:
                wr.close_error = exc        # connection_lost(exc): the writer's wait_closed() raises it too
        else:
            raise AssertionError(kind)
        await settle()

    async def break_(self, kind_I="eof", kind_A="eof", drain_I=None, drain_A=None, partial=None):
        """drop everything in flight both ways; kinds: eof | reset | pipe | timeout | oserror | silent.
        partial = (side, fraction): the connection is cut in the middle of the frame that was next in flight towards `side`:
        its first part still arrives (TCP delivers what it has), then the break."""
        link = self.link
        if link is None or not link.up:
            return
        if partial is not None:
            side, frac = partial
            nxt = link.q[side][0] if link.q[side] else None
            if isinstance(nxt, (bytes, bytearray)) and len(nxt) > 2:
                k = max(1, min(len(nxt) - 1, int(len(nxt) * frac)))
                link.reader[side].feed(bytes(nxt[:k]))
                self.partial_frames_delivered += 1
                await settle()
        link.up = False
        link.q["I"].clear()
        link.q["A"].clear()
        link.drain_fault["I"], link.drain_fault["A"] = drain_I, drain_A
        for side, kind in (("I", kind_I), ("A", kind_A)):
            if kind != "silent":
                await self.notify(side, kind)
        await settle()

    def in_flight(self, side):
        return len(self.link.q[side]) if self.link is not None and self.link.up else 0

    async def deliver(self, side):
        """deliver the next in-flight item to `side`"""
        link = self.link
        if link is None or not link.up or not link.q[side]:
            return False
        x = link.q[side].pop(0)
        if x is EOF:
            link.notified[side] = True
            if self.ep[side]._socket_reader is link.reader[side]:
                link.reader[side].feed_eof()
        else:
            self.last_delivered[side] = x
            link.reader[side].feed(x)
        await settle()
        return True

    def connected(self, side):
        return self.ep[side]._socket_reader is not None

    async def start_tasks(self):
        from asyncfix.connection import AsyncFIXConnection
        # the acceptor's reader/heartbeat tasks, as AsyncFIXDummyServer.connect() starts them before serving
        await AsyncFIXConnection.connect(self.ep["A"])

    def stop(self):
        from vf.sim import endpoint as E
        for s in "IA":
            E.stop_tasks(self.ep[s])
