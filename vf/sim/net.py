"""In-memory transports with exactly the StreamReader / StreamWriter surface connection.py uses.

MemReader.read(n); MemWriter.write / drain / close / wait_closed / get_extra_info.
Every write() is recorded on a tap *before* anything else happens to it.
"""
import asyncio
from collections import deque


class SpinAbort(BaseException):
    """Raised (as BaseException, so that nothing in asyncfix swallows it) when an endpoint busy-loops."""


class Tap:
    """Record of bytes handed to a transport: list of (virtual time, bytes)."""

    def __init__(self, clock=None, name=""):
        self.clock = clock
        self.name = name
        self.items = []

    def add(self, data):
        self.items.append((self.clock.now if self.clock else 0.0, bytes(data)))

    def frames(self, start=0):
        return [b for _, b in self.items[start:]]

    def __len__(self):
        return len(self.items)


class MemReader:
    SPIN_LIMIT = 1000

    def __init__(self, name=""):
        self.name = name
        self.chunks = deque()
        self.eof = False
        self.err = None          # persistent exception instance (as asyncio's StreamReader keeps it)
        self.waiter = None
        self.consecutive_raises = 0
        self.reads = 0

    # harness side
    def feed(self, data: bytes):
        if data:
            self.chunks.append(bytes(data))
            self._wake()

    def feed_eof(self):
        self.eof = True
        self._wake()

    def set_exception(self, exc):
        self.err = exc
        self._wake()

    def _wake(self):
        w = self.waiter
        if w is not None and not w.done():
            w.set_result(None)

    def pending(self):
        return sum(len(c) for c in self.chunks)

    # library side
    async def read(self, n=-1):
        self.reads += 1
        while not self.chunks and not self.eof and self.err is None:
            self.waiter = asyncio.get_running_loop().create_future()
            try:
                await self.waiter
            finally:
                self.waiter = None
        if self.chunks:
            self.consecutive_raises = 0
            c = self.chunks.popleft()
            if n is not None and 0 < n < len(c):
                self.chunks.appendleft(c[n:])
                c = c[:n]
            return c
        if self.err is not None:
            self.consecutive_raises += 1
            if self.consecutive_raises > self.SPIN_LIMIT:
                raise SpinAbort(f"{self.name}: read() raised {self.SPIN_LIMIT} times in a row without the reader ever suspending")
            raise self.err
        # EOF: a reader that keeps calling read() on an ended stream without ever suspending is a busy loop too
        self.consecutive_raises += 1
        if self.consecutive_raises > self.SPIN_LIMIT:
            raise SpinAbort(f"{self.name}: read() returned EOF {self.SPIN_LIMIT} times in a row without the reader ever suspending")
        return b""


class MemWriter:
    def __init__(self, tap: Tap, sink=None, name=""):
        self.tap = tap
        self.sink = sink            # callable(bytes) -> None : where written bytes go
        self.name = name
        self.closed = False
        self.on_close = None
        self.drain_hook = None      # async callable() or None ; may raise
        self.write_error = None     # exception to raise from write()
        self.drain_error = None     # exception to raise from drain()
        self.writes_after_close = 0
        self.close_error = None         # exception the connection was lost with: wait_closed() re-raises it, as asyncio's does
        self.wait_closed_hook = None    # async callable() or None: how long the transport takes to finish closing

    def write(self, data):
        self.tap.add(data)
        if self.closed:
            self.writes_after_close += 1
            return
        if self.write_error is not None:
            raise self.write_error
        if self.sink is not None:
            self.sink(bytes(data))

    async def drain(self):
        if self.drain_hook is not None:
            await self.drain_hook()
        if self.drain_error is not None:
            raise self.drain_error

    def close(self):
        if not self.closed:
            self.closed = True
            if self.on_close:
                self.on_close()

    async def wait_closed(self):
        if self.wait_closed_hook is not None:
            await self.wait_closed_hook()
        if self.close_error is not None:
            # asyncio: a connection that was lost WITH an error (reset, broken pipe) makes wait_closed() raise that error
            raise self.close_error
        return None

    def is_closing(self):
        return self.closed

    def get_extra_info(self, *a, **k):
        return ("mem", 0)


async def settle(limit=20000):
    """Yield until every other task is parked (nothing left in the loop's ready queue)."""
    loop = asyncio.get_running_loop()
    quiet = 0
    for _ in range(limit):
        await asyncio.sleep(0)
        if len(loop._ready) == 0:
            quiet += 1
            if quiet >= 2:
                return
        else:
            quiet = 0
    raise SpinAbort(f"settle(): ready queue never drained in {limit} iterations (some task busy-loops)")


async def advance(dt):
    """Let `dt` virtual seconds pass (timers fire at their own virtual times), then settle."""
    await asyncio.sleep(dt)
    await settle()


def install_open_connection(handler=None):
    """Replace asyncio.open_connection (what AsyncFIXClient.connect() calls) by `handler(host, port) -> (reader, writer)`;
    without a handler every attempt is refused.  Returns undo()."""
    saved = asyncio.open_connection

    async def _open(host=None, port=None, *a, **k):
        if handler is None:
            raise ConnectionRefusedError("vf: no listener")
        r = handler(host, port)
        if asyncio.iscoroutine(r):
            r = await r
        return r

    asyncio.open_connection = _open

    def undo():
        asyncio.open_connection = saved

    return undo
