"""Controlled scheduler: every place where asyncfix can suspend while holding protocol state is a drain() or an awaited
application hook; both park on a future that only the scheduler resolves.  A schedule is the sequence of choices
"which enabled option is taken next" (options: release a parked gate - drain waiters FIFO, as asyncio wakes them -,
start an application task, feed the next inbound frame, let one virtual second pass).  Exploration is stateless
re-execution: DFS over choice prefixes up to a bound, greedy (option 0) or random beyond it.
"""
import asyncio


class Gate:
    __slots__ = ("label", "fut")

    def __init__(self, label, fut):
        self.label, self.fut = label, fut


class Sched:
    def __init__(self):
        self.gates = []

    async def wait(self, label):
        g = Gate(label, asyncio.get_running_loop().create_future())
        self.gates.append(g)
        try:
            await g.fut
        finally:
            if g in self.gates:
                self.gates.remove(g)

    def enabled_gates(self):
        out, seen_drain = [], set()
        for g in self.gates:
            if g.label.startswith("drain"):
                if g.label in seen_drain:     # FIFO per writer
                    continue
                seen_drain.add(g.label)
            out.append(g)
        return out

    def release(self, g):
        self.gates.remove(g)
        if not g.fut.done():
            g.fut.set_result(None)


class DFS:
    """DFS over choice prefixes by stateless re-execution.  Usage:
         while (pre := dfs.pop()) is not None:  trace = run(pre);  mine = dfs.push(pre, trace)
    trace = [(choice, n_options, label), ...] or None (infeasible prefix).  Beyond the prefix a run takes option 0.
    Work is split between `nparts` parts by the first `split_depth` decisions actually taken; every part re-runs the few
    shallow runs needed to learn the branching there and judges only its own subtrees."""

    def __init__(self, depth, max_runs, part=0, nparts=1, split_depth=2):
        self.depth, self.max_runs, self.part, self.nparts, self.split_depth = depth, max_runs, part, nparts, split_depth
        self.stack = [()]
        self.runs = 0
        self.exhausted = False

    def pop(self):
        if not self.stack:
            self.exhausted = True
            return None
        if self.runs >= self.max_runs:
            return None
        self.runs += 1
        return self.stack.pop()

    def push(self, pre, trace):
        if trace is None:
            return False
        taken = tuple(t[0] for t in trace[:self.split_depth])
        mine = (sum((k + 1) * (c + 1) * 7 for k, c in enumerate(taken)) % self.nparts) == self.part
        for i in range(len(pre), min(len(trace), self.depth)):
            if i >= self.split_depth and not mine:
                break                      # that subtree belongs to another part
            for alt in range(1, trace[i][1]):
                self.stack.append(tuple(t[0] for t in trace[:i]) + (alt,))
        return mine
