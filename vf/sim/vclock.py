"""Virtual time: clock object, event loop whose select() advances the clock, datetime stand-in."""
import asyncio
import datetime as _dt
import selectors
import time as _time


class VClock:
    """Stands in for the `time` module inside asyncfix.connection (only .time() is virtual)."""

    def __init__(self, start=1_000_000.0):
        self.now = float(start)

    def time(self):
        return self.now

    def __getattr__(self, n):
        return getattr(_time, n)


class VDateTime:
    """Stands in for `datetime.datetime` inside asyncfix.codec / order_single (utcnow only)."""

    def __init__(self, clock):
        self._clock = clock

    def utcnow(self):
        return _dt.datetime(2024, 1, 1) + _dt.timedelta(seconds=self._clock.now - 1_000_000.0)

    def __getattr__(self, n):
        return getattr(_dt.datetime, n)


class Deadlock(Exception):
    pass


class VSelector(selectors.BaseSelector):
    HORIZON = 5_000_000.0   # virtual seconds; beyond this the main coroutine is parked for good

    def __init__(self, clock):
        self.clock = clock
        self.t0 = clock.now
        self._map = {}

    def register(self, fileobj, events, data=None):
        fd = fileobj if isinstance(fileobj, int) else fileobj.fileno()
        k = selectors.SelectorKey(fileobj, fd, events, data)
        self._map[fileobj] = k
        return k

    def unregister(self, fileobj):
        return self._map.pop(fileobj)

    def select(self, timeout=None):
        if timeout is None:
            raise Deadlock("nothing scheduled and nothing runnable")
        if timeout > 0:
            before = self.clock.now
            self.clock.now += timeout
            if self.clock.now == before:     # timeout below one ulp of the clock: force progress
                import math
                self.clock.now = math.nextafter(before, math.inf)
            if self.clock.now - self.t0 > self.HORIZON:
                raise Deadlock("virtual-time horizon passed: the driving coroutine waits for something that never happens")
        return []

    def get_map(self):
        return self._map

    def close(self):
        pass


class VLoop(asyncio.SelectorEventLoop):
    def __init__(self, clock):
        self.clock = clock
        super().__init__(VSelector(clock))
        self._clock_resolution = 1e-6   # timers within a microsecond of "now" are due (float residue of the virtual clock)

    def time(self):
        return self.clock.now


def install(clock):
    """Point asyncfix's module-level time/datetime at the virtual clock.  Returns undo()."""
    import asyncfix.codec as codecmod
    import asyncfix.connection as connmod
    import asyncfix.protocol.order_single as osmod

    saved = (connmod.time, codecmod.datetime, osmod.datetime)
    connmod.time = clock
    codecmod.datetime = VDateTime(clock)
    osmod.datetime = VDateTime(clock)

    def undo():
        connmod.time, codecmod.datetime, osmod.datetime = saved

    return undo


def run(coro_fn, clock=None):
    """Run `await coro_fn(clock)` on a fresh virtual-time loop."""
    clock = clock or VClock()
    undo = install(clock)
    loop = VLoop(clock)
    asyncio.set_event_loop(loop)
    main = loop.create_task(coro_fn(clock))
    try:
        return loop.run_until_complete(main)
    except Deadlock as e:
        import io
        buf = io.StringIO()
        main.print_stack(file=buf)
        raise Deadlock(str(e) + " :: " + buf.getvalue()[-1500:]) from None
    finally:
        try:
            pending = [t for t in asyncio.all_tasks(loop) if not t.done()]
            for t in pending:
                t.cancel()
            if pending:
                loop.run_until_complete(asyncio.gather(*pending, return_exceptions=True))
        except BaseException:
            pass
        loop.close()
        asyncio.set_event_loop(None)
        undo()
